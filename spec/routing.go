//go:build go1.18

package restful

import (
	"net/http"
	"regexp"
	"strings"
)

// Routing oracle, transcribed from the statements of C01, C02, C03 and C04
// (not from the code). Everything here is pure; govc turns the functions into
// SMT definitions, and the same Go text is what replays counterexamples.

// --- custom verbs (A-VERB) ---------------------------------------------------
// A token "has a verb" when it ends in ":" followed by one or more ASCII
// letters. These three are opaque to the solver (uninterpreted); they are
// validated against the package's regular expressions in the thorough tier.

//govc:opaque
func hasVerb(t string) bool { return alphaSuffixLen(t) > 0 && alphaSuffixLen(t) < len(t) && t[len(t)-alphaSuffixLen(t)-1] == ':' }

//govc:opaque
func verbOf(t string) string { return t[len(t)-alphaSuffixLen(t):] }

//govc:opaque
func stemOf(t string) string { return t[:len(t)-alphaSuffixLen(t)-1] }

func alphaSuffixLen(s string) int {
	n := 0
	for n < len(s) {
		c := s[len(s)-1-n]
		if !(c >= 'a' && c <= 'z' || c >= 'A' && c <= 'Z') {
			break
		}
		n++
	}
	return n
}

// effTok: the part of a template token that is matched against the URL segment
// once a custom verb (if the route has one) is split off.
func effTok(rt string, hv bool) string {
	if hv && hasVerb(rt) {
		return stemOf(rt)
	}
	return rt
}

// --- template tokens ---------------------------------------------------------

func isVarTok(t string) bool { return strings.HasPrefix(t, "{") }

func regPartOf(t string) string {
	c := strings.Index(t, ":")
	if c < 0 || len(t) < c+2 {
		return ""
	}
	return t[c+1 : len(t)-1]
}

// a tail wildcard is {name:*}
func isTailTok(t string) bool {
	c := strings.Index(t, ":")
	return isVarTok(t) && c >= 0 && t[c+1:] == "*}"
}

func suffixOfTok(t string) string {
	e := strings.Index(t, "}")
	if e < 0 {
		return ""
	}
	return t[e+1:]
}

// rxMatch: "the regex-constrained variable is satisfied" (regexp.MatchString, unanchored).
func rxMatch(p, s string) bool {
	m, err := regexp.MatchString(p, s)
	return m && err == nil
}

// wfTok0: token forms C01 quantifies over: literal, {v}, {v}suffix, {v:regex}, {v:*}.
func wfTok0(t string) bool {
	if !strings.Contains(t, "{") {
		return true // literal
	}
	if !strings.HasPrefix(t, "{") {
		return false // prefix{v} is not in the quantified fragment
	}
	c := strings.Index(t, ":")
	if c >= 0 {
		return len(t) >= c+2 && strings.HasSuffix(t, "}")
	}
	return strings.Index(t, "}") >= 1
}

func wfTok(rt string, hv bool) bool { return wfTok0(effTok(rt, hv)) }

// wfTemplate: every token is well formed and a tail wildcard occurs only last.
func wfTemplate(R []string, hv bool) bool {
	return forall(0, len(R), func(k int) bool {
		return wfTok(R[k], hv) && (k == len(R)-1 || !isTailTok(effTok(R[k], hv)))
	})
}

// tokAdmits0: one template token (verb already split off) admits one URL segment.
func tokAdmits0(rt, qt string) bool {
	if !isVarTok(rt) {
		return rt == qt // literal segments equal
	}
	if strings.Index(rt, ":") >= 0 {
		if isTailTok(rt) {
			return true // tail wildcard
		}
		return rxMatch(regPartOf(rt), qt) // regex-constrained variable satisfied
	}
	return strings.HasSuffix(qt, suffixOfTok(rt)) // literal suffix present
}

// tokAdmits: with the custom-verb suffix equal.
func tokAdmits(rt, qt string, hv bool) bool {
	if hv && hasVerb(rt) {
		v := ":" + verbOf(rt)
		return strings.HasSuffix(qt, v) && tokAdmits0(stemOf(rt), qt[:len(qt)-len(v)])
	}
	return tokAdmits0(rt, qt)
}

// The template "ends in a tail wildcard" when its last token is {name:*}.
func endsInTail(R []string, hv bool) bool {
	return len(R) > 0 && isTailTok(R[len(R)-1])
}

// pathAdmits: same number of segments unless the template ends in a tail
// wildcard; every template token admits the segment at its position.
func pathAdmits(R, Q []string, hv bool) bool {
	if len(Q) < len(R) {
		return false
	}
	if len(Q) > len(R) && !endsInTail(R, hv) {
		return false
	}
	return forall(0, len(R), func(k int) bool { return tokAdmits(R[k], Q[k], hv) })
}

// --- ranking keys (C03) ------------------------------------------------------

func staticWeight(rt string, hv bool) int {
	w := 0
	if hv && hasVerb(rt) {
		w++
	}
	if !isVarTok(effTok(rt, hv)) {
		w++
	}
	return w
}

func paramWeight(rt string, hv bool) int {
	if isVarTok(effTok(rt, hv)) {
		return 1
	}
	return 0
}

// countStatic / countParams over the first k template tokens.
func countStatic(R []string, k int, hv bool) int {
	if k <= 0 {
		return 0
	}
	return countStatic(R, k-1, hv) + staticWeight(R[k-1], hv)
}

func countParams(R []string, k int, hv bool) int {
	if k <= 0 {
		return 0
	}
	return countParams(R, k-1, hv) + paramWeight(R[k-1], hv)
}

// --- WebService root paths (C02, C03) ----------------------------------------

// rootTokAdmits: a root-path token claims a URL segment: literals equal; a
// variable needs a non-empty segment, and a regex variable only claims
// segments that satisfy it.
func rootTokAdmits(t, q string) bool {
	if len(t) == 0 && len(q) == 0 {
		return true
	}
	if isVarTok(t) {
		if len(q) == 0 {
			return false
		}
		if strings.Index(t, ":") >= 0 && !isTailTok(t) {
			return rxMatch(regPartOf(t), q)
		}
		return true
	}
	return t == q
}

func wfRootTok(t string) bool {
	if !isVarTok(t) {
		return true
	}
	c := strings.Index(t, ":")
	return c < 0 || (len(t) >= c+2 && strings.HasSuffix(t, "}"))
}

func wfRoot(T []string) bool {
	return forall(0, len(T), func(k int) bool { return wfRootTok(T[k]) })
}

// rootAdmits: the root path's tokens claim the first len(T) segments of the URL.
func rootAdmits(T, Q []string) bool {
	return len(T) <= len(Q) && forall(0, len(T), func(k int) bool { return rootTokAdmits(T[k], Q[k]) })
}

// rootWeight / rootScore: literals weigh more than variables, earlier literals more than later ones.
func rootWeight(T []string, i int) int {
	if len(T[i]) > 0 && isVarTok(T[i]) {
		return 1
	}
	if len(T[i]) == 0 {
		return 1
	}
	return (len(T) - i) * 10
}

func rootScore(T []string, k int) int {
	if k <= 0 {
		return 0
	}
	return rootScore(T, k-1) + rootWeight(T, k-1)
}

// --- ranking of routes (C03) -------------------------------------------------

// curlyBefore: x ranks before y — more static tokens, then more parameters, then the greater path.
func curlyBefore(x, y curlyRoute) bool {
	if y.staticCount != x.staticCount {
		return y.staticCount < x.staticCount
	}
	if y.paramCount != x.paramCount {
		return y.paramCount < x.paramCount
	}
	return y.route.Path < x.route.Path
}

// --- choice of the WebService (C02, C03) --------------------------------------

func wfService(ws *WebService) bool {
	return ws != nil && ws.pathExpr != nil && wfRoot(ws.pathExpr.tokens)
}

func svcAdmits(ws *WebService, Q []string) bool { return rootAdmits(ws.pathExpr.tokens, Q) }

func svcScore(ws *WebService) int { return rootScore(ws.pathExpr.tokens, len(ws.pathExpr.tokens)) }

// bestIdx: index of the admitted service with the greatest score among the
// first n, the first one among equals; -1 if none is admitted.
func bestIdx(W []*WebService, Q []string, n int) int {
	if n <= 0 {
		return -1
	}
	b := bestIdx(W, Q, n-1)
	if svcAdmits(W[n-1], Q) && (b < 0 || svcScore(W[n-1]) > svcScore(W[b])) {
		return n - 1
	}
	return b
}

// --- staged elimination in detectRoute (C01, C02) ------------------------------
// A route passes stage 0 if all its conditions hold, stage 1 if also the
// method matches, stage 2 if also the Content-Type is admitted, stage 3 if
// also the Accept header is satisfiable.

func condsPass(r Route, req *http.Request) bool {
	return forall(0, len(r.If), func(j int) bool { return r.If[j](req) })
}

func acceptOf(req *http.Request) string {
	a := req.Header.Get("Accept")
	if len(a) == 0 {
		return "*/*"
	}
	return a
}

func passes(r Route, req *http.Request, stage int) bool {
	return condsPass(r, req) &&
		(stage < 1 || req.Method == r.Method) &&
		(stage < 2 || ctAdmits(r.Consumes, r.Method, r.allowedMethodsWithoutContentType, req.Header.Get("Content-Type"))) &&
		(stage < 3 || acceptAdmits(r.Produces, acceptOf(req)))
}

// wfRouteLists: the media type lists contain no empty entries (precondition of the header oracles).
func wfRouteLists(r Route) bool {
	return noEmptyEntry(r.Produces) && noEmptyEntry(r.Consumes) &&
		forall(0, len(r.If), func(j int) bool { return r.If[j] != nil })
}

// candOK: a candidate pointer of detectRoute points at one of the routes, and
// that route is well formed and has passed the given stage.
func candOK(p *Route, routes []Route, req *http.Request, stage int) bool {
	return ptrInto(p, routes) && wfRouteLists(*p) && passes(*p, req, stage)
}

// --- the interface contract of RouteSelector.SelectRoute (C01, C02) -------------

// pathAdmitsP: pathAdmits stated over the URL path itself (its token functions).
func pathAdmitsP(R []string, p string, hv bool) bool {
	if tokCount(p) < len(R) {
		return false
	}
	if tokCount(p) > len(R) && !endsInTail(R, hv) {
		return false
	}
	return forall(0, len(R), func(k int) bool { return tokAdmits(R[k], tokAt(p, k), hv) })
}

// routeOK / svcOK: well-formedness of the registered configuration.
func routeOK(r Route) bool {
	return wfTemplate(r.pathParts, r.hasCustomVerb) && wfRouteLists(r) && r.Function != nil &&
		forall(0, len(r.Filters), func(k int) bool { return r.Filters[k] != nil })
}

func svcOK(ws *WebService) bool {
	return wfService(ws) && wfServiceFns(ws) && routesLockOf(ws) >= 0 &&
		forall(0, len(ws.routes), func(k int) bool { return routeOK(ws.routes[k]) })
}

// routeAdmits: C01's admission — method, path template, Content-Type, Accept, conditions.
func routeAdmits(r *Route, req *http.Request) bool {
	return passes(*r, req, 3) && pathAdmitsP(r.pathParts, req.URL.Path, r.hasCustomVerb)
}

// pathCompiles: the template's regular expression compiles (otherwise Build exits the process).
//
//govc:opaque
func pathCompiles(template string) bool {
	_, err := newPathExpression(template)
	return err == nil
}

// --- what a template binds (C04), stated over the URL path p itself ------------------

// bindsAt: template token k declares a variable (custom verb split off first).
func bindsAt(R []string, k int, hv bool) bool { return isVarTok(effTok(R[k], hv)) }

// nameAt: the declared name: between "{" and ":" or "}".
func nameAt(R []string, k int, hv bool) string {
	t := effTok(R[k], hv)
	if c := strings.Index(t, ":"); c >= 0 {
		return t[1:c]
	}
	return t[1:strings.Index(t, "}")]
}

// joinFromP: the URL segments from position k on, joined by "/".
func joinFromP(p string, k int) string {
	if k >= tokCount(p) {
		return ""
	}
	if k == tokCount(p)-1 {
		return tokAt(p, k)
	}
	return tokAt(p, k) + "/" + joinFromP(p, k+1)
}

// segAt: the URL segment at position k, minus the custom-verb suffix ":verb" when the template token carries the verb.
func segAt(R []string, p string, k int, hv bool) string {
	if k >= tokCount(p) {
		return ""
	}
	if hv && hasVerb(R[k]) {
		return tokAt(p, k)[:len(tokAt(p, k))-len(verbOf(R[k]))-1]
	}
	return tokAt(p, k)
}

// valueAt: exactly the URL text the variable stands for: the whole remaining path for a tail wildcard,
// the segment for a plain or regex variable, minus the literal suffix of the template token.
func valueAt(R []string, p string, k int, hv bool) string {
	t := effTok(R[k], hv)
	if strings.Index(t, ":") >= 0 {
		if isTailTok(t) {
			return joinFromP(p, k)
		}
		return segAt(R, p, k, hv)
	}
	return segAt(R, p, k, hv)[:len(segAt(R, p, k, hv))-len(suffixOfTok(t))]
}

// lastName: no later token (below n) declares the same name.
func lastName(R []string, n int, k int, hv bool) bool {
	return forall(k+1, n, func(k2 int) bool { return !(bindsAt(R, k2, hv) && nameAt(R, k2, hv) == nameAt(R, k, hv)) })
}

// --- exactness of the detectRoute stage (C02) ------------------------------------

// inCands: pointer p occurs in c[lo:hi].
func inCands(c []*Route, lo, hi int, p *Route) bool {
	return exists(lo, hi, func(a int) bool { return c[a] == p })
}

// anyPasses: some route passes all stages up to and including the given one.
func anyPasses(routes []Route, req *http.Request, stage int) bool {
	return exists(0, len(routes), func(j int) bool { return passes(routes[j], req, stage) })
}

// statusOf: the HTTP status a routing error carries.
func statusOf(err error) int {
	if se, ok := err.(ServiceError); ok {
		return se.Code
	}
	return 0
}

// bodiless: a POST, PUT or PATCH that announces no body.
func bodiless(req *http.Request) bool {
	return (req.Method == "POST" || req.Method == "PUT" || req.Method == "PATCH") &&
		(req.Header.Get("Content-Length") == "" || req.Header.Get("Content-Length") == "0")
}

// witOK: candidate pointer p is a witness that some route passes the stage.
func witOK(p *Route, routes []Route, req *http.Request, stage int) bool {
	return 0 <= ptrIndex(p, routes) && ptrIndex(p, routes) < len(routes) && passes(routes[ptrIndex(p, routes)], req, stage)
}

// curlyCand: the ranking record of a route (C03).
func curlyCand(r Route) curlyRoute {
	return curlyRoute{r, countParams(r.pathParts, len(r.pathParts), r.hasCustomVerb), countStatic(r.pathParts, len(r.pathParts), r.hasCustomVerb)}
}
