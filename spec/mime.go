//go:build go1.18

package restful

// Ranking of Accept ranges (C05): greater q first, header order on ties.

func sortedDesc(l []mime) bool {
	return forall(0, len(l), func(i int) bool { return forall(i+1, len(l), func(j int) bool { return l[i].quality >= l[j].quality }) })
}

// insertedAt(l, r, e, p): r is l with e inserted at position p.
func insertedAt(l, r []mime, e mime, p int) bool {
	return len(r) == len(l)+1 && 0 <= p && p <= len(l) && same(r[p], e) &&
		forall(0, p, func(k int) bool { return same(r[k], l[k]) }) &&
		forall(p, len(l), func(k int) bool { return same(r[k+1], l[k]) })
}

// stablePos(l, e, p): p is where a stable descending insertion puts e — after
// every entry of at least its quality, before the first of a smaller one.
func stablePos(l []mime, e mime, p int) bool {
	return forall(0, p, func(k int) bool { return l[k].quality >= e.quality }) &&
		(p == len(l) || l[p].quality < e.quality)
}
