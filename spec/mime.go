//go:build go1.18

package restful

import (
	"strconv"
	"strings"
)

// Ranking of Accept ranges (C05): greater q first, header order on ties.

func sortedDesc(l []mime) bool {
	return forall(0, len(l), func(i int) bool { return forall(i+1, len(l), func(j int) bool { return l[i].quality >= l[j].quality }) })
}

// insertedAt(l, r, e, p): r is l with e inserted at position p.
func insertedAt(l, r []mime, e mime, p int) bool {
	return len(r) == len(l)+1 && 0 <= p && p <= len(l) && same(r[p], e) &&
		forall(0, p, func(k int) bool { return same(r[k], l[k]) }) &&
		forall(p, len(l), func(k int) bool { return same(r[k+1], l[k]) })
}

// stablePos(l, e, p): p is where a stable descending insertion puts e — after
// every entry of at least its quality, before the first of a smaller one.
func stablePos(l []mime, e mime, p int) bool {
	return forall(0, p, func(k int) bool { return l[k].quality >= e.quality }) &&
		(p == len(l) || l[p].quality < e.quality)
}

// --- what an Accept header says (from the statement of C05 and the HTTP grammar) ---------------
//
// The header is a comma separated list of ranges. A range is `media (";" parameter)*`; optional
// whitespace around "," ";" and "=" is not part of anything. The weight of a range is the value of
// its parameter named q (1 when it has none). A range whose weight is not a number ranks nowhere.

// rangeCount(h): number of ranges of header h.
func rangeCount(h string) int { return model_splitCount(h, ",") }

// tRange(e): range text e without the optional whitespace around it.
func tRange(e string) string { return model_strings_Trim(e, " ") }

// tMedia(e): the media type of range text e — what stands before the first ";".
func tMedia(e string) string {
	return model_strings_Trim(model_splitPart(tRange(e), ";", 0), " ")
}

// isQParam(p): parameter text p is `q = value`.
func isQParam(p string) bool {
	return model_splitCount(p, "=") == 2 && model_strings_Trim(model_splitPart(p, "=", 0), " ") == "q"
}

// qValText(p): the value text of a `q = value` parameter.
func qValText(p string) string { return model_strings_Trim(model_splitPart(p, "=", 1), " ") }

// qIdx(r, i): index of the first q parameter of range text r at or after part i; the number of parts if there is none.
func qIdx(r string, i int) int {
	if i >= model_splitCount(r, ";") {
		return model_splitCount(r, ";")
	}
	if isQParam(model_splitPart(r, ";", i)) {
		return i
	}
	return qIdx(r, i+1)
}

func pfOK(s string) bool {
	_, err := strconv.ParseFloat(s, 64)
	return err == nil
}

func pfVal(s string) float64 {
	f, _ := strconv.ParseFloat(s, 64)
	return f
}

// tHasQ(e): range text e carries a q parameter.
func tHasQ(e string) bool { return qIdx(tRange(e), 1) < model_splitCount(tRange(e), ";") }

// tParsed(e): range text e has a usable weight (no q parameter, or one whose value is a number).
func tParsed(e string) bool {
	return !tHasQ(e) || pfOK(qValText(model_splitPart(tRange(e), ";", qIdx(tRange(e), 1))))
}

// tQ(e): the weight of range text e.
func tQ(e string) float64 {
	if !tHasQ(e) {
		return 1.0
	}
	return pfVal(qValText(model_splitPart(tRange(e), ";", qIdx(tRange(e), 1))))
}

// the j-th range of header h
func rMedia(h string, j int) string { return tMedia(model_splitPart(h, ",", j)) }
func rParsed(h string, j int) bool  { return tParsed(model_splitPart(h, ",", j)) }
func rQ(h string, j int) float64    { return tQ(model_splitPart(h, ",", j)) }

// --- the ranked list as a witness ---------------------------------------------------------------
//
// rkSrc(h, n, k) names the range that stands at position k once the first n ranges are ranked. It
// is a *witness* (it follows the insertion the code performs); what C05 states about the ranking —
// every usable range is in it exactly once, greater weight first, header order on ties — is proved
// about it by the lemmas C05.rank-*.

// rkLen(h, n): number of usable ranges among the first n.
func rkLen(h string, n int) int {
	if n <= 0 {
		return 0
	}
	if rParsed(h, n-1) {
		return rkLen(h, n-1) + 1
	}
	return rkLen(h, n-1)
}

// rkLow(h, n, x, k): first position at or after k whose weight is below x; rkLen(h, n) if there is none.
func rkLow(h string, n int, x float64, k int) int {
	if k >= rkLen(h, n) {
		return rkLen(h, n)
	}
	if rQ(h, rkSrc(h, n, k)) < x {
		return k
	}
	return rkLow(h, n, x, k+1)
}

// rkIns(h, n): where range n is placed among the ranking of the first n ranges.
func rkIns(h string, n int) int { return rkLow(h, n, rQ(h, n), 0) }

func rkSrc(h string, n int, k int) int {
	if n <= 0 {
		return -1
	}
	if !rParsed(h, n-1) {
		return rkSrc(h, n-1, k)
	}
	if k < rkIns(h, n-1) {
		return rkSrc(h, n-1, k)
	}
	if k == rkIns(h, n-1) {
		return n - 1
	}
	return rkSrc(h, n-1, k-1)
}

// rkPos(h, n, j): the position of range j (< n, usable) in the ranking of the first n ranges.
func rkPos(h string, n int, j int) int {
	if n <= 0 {
		return -1
	}
	if !rParsed(h, n-1) {
		return rkPos(h, n-1, j)
	}
	if j == n-1 {
		return rkIns(h, n-1)
	}
	if rkPos(h, n-1, j) >= rkIns(h, n-1) {
		return rkPos(h, n-1, j) + 1
	}
	return rkPos(h, n-1, j)
}

// beats(h, a, b): range a ranks before range b — greater weight, or equal weight and earlier in the header.
func beats(h string, a, b int) bool {
	return rQ(h, a) > rQ(h, b) || (rQ(h, a) == rQ(h, b) && a < b)
}

// --- what the entity writer must choose (C05) ------------------------------------------------

// inList(P, m): the route produces media type m.
func inList(P []string, m string) bool {
	return exists(0, len(P), func(k int) bool { return P[k] == m })
}

// mediaUseful(P, m): a range naming m can be answered from the Produces list P — m is one of
// its entries, or m is */* (which stands for the first entry).
func mediaUseful(P []string, m string) bool {
	return inList(P, m) || (m == "*/*" && len(P) > 0)
}

// rangeUseful(h, P, j): the j-th range of header h has a usable weight and can be answered from P.
func rangeUseful(h string, P []string, j int) bool {
	return rParsed(h, j) && mediaUseful(P, rMedia(h, j))
}

// rangeBest(h, P, j): among the useful ranges of h the header ranks j highest (greater q first, header order on ties).
func rangeBest(h string, P []string, j int) bool {
	return 0 <= j && j < rangeCount(h) && rangeUseful(h, P, j) &&
		forall(0, rangeCount(h), func(i int) bool { return !rangeUseful(h, P, i) || !beats(h, i, j) })
}

// chosenMedia(P, m): the media type answered for a useful range naming m.
func chosenMedia(P []string, m string) string {
	if inList(P, m) {
		return m
	}
	return P[0]
}

// allRegistered(reg, P): every produced media type has a writer registered under exactly that name.
func allRegistered(reg *entityReaderWriters, P []string) bool {
	return forall(0, len(P), func(k int) bool { return regHas(reg, P[k]) })
}

// mimeLow(l, x, k): the first position at or after k whose quality is below x; len(l) if there is none —
// where a stable insertion by descending quality puts an entry of quality x.
func mimeLow(l []mime, x float64, k int) int {
	if k >= len(l) {
		return len(l)
	}
	if l[k].quality < x {
		return k
	}
	return mimeLow(l, x, k+1)
}

// rankedAs(l, h, n): l is the ranking of the first n ranges of header h (position k holds range rkSrc(h, n, k)).
func rankedAs(l []mime, h string, n int) bool {
	return len(l) == rkLen(h, n) && forall(0, len(l), func(i int) bool {
		return l[i].media == rMedia(h, rkSrc(h, n, i)) && l[i].quality == rQ(h, rkSrc(h, n, i))
	})
}

// --- the router's view of the same header (C05: a request admitted on Accept grounds is not answered 406) ---

// admitIdx(P, h): index of the first range of h that the router's admission (acceptAdmits) accepts; -1 if none.
func admitIdx(P []string, h string) int {
	i := strings.Index(h, ",")
	if i < 0 {
		if rangeAdmitsAccept(P, h) {
			return 0
		}
		return -1
	}
	if rangeAdmitsAccept(P, h[:i]) {
		return 0
	}
	if admitIdx(P, h[i+1:]) < 0 {
		return -1
	}
	return admitIdx(P, h[i+1:]) + 1
}

// beforeSemi(s): s up to its first ";" (all of s if it has none).
func beforeSemi(s string) string { return model_splitPart(s, ";", 0) }
