//go:build go1.18

package restful

import "strings"

// Header admission oracle (C01, C02, C05): a header is a comma separated list
// of ranges; the media type of a range is the text before the first ';',
// trimmed of spaces.

func mediaOf(rng string) string {
	q := strings.Index(rng, ";")
	if q >= 0 {
		return model_strings_Trim(rng[:q], " ")
	}
	return model_strings_Trim(rng, " ")
}

// rangeAdmitsAccept: the range is */* or names a media type the list offers (or the list offers */*).
func rangeAdmitsAccept(P []string, rng string) bool {
	return mediaOf(rng) == "*/*" || exists(0, len(P), func(k int) bool { return P[k] == "*/*" || P[k] == mediaOf(rng) })
}

// acceptAdmits: "the Accept header is satisfiable from the Produces list".
func acceptAdmits(P []string, h string) bool {
	i := strings.Index(h, ",")
	if i < 0 {
		return rangeAdmitsAccept(P, h)
	}
	return rangeAdmitsAccept(P, h[:i]) || acceptAdmits(P, h[i+1:])
}

func rangeAdmitsContent(C []string, rng string) bool {
	return exists(0, len(C), func(k int) bool { return C[k] == "*/*" || C[k] == mediaOf(rng) })
}

func contentListAdmits(C []string, h string) bool {
	i := strings.Index(h, ",")
	if i < 0 {
		return rangeAdmitsContent(C, h)
	}
	return rangeAdmitsContent(C, h[:i]) || contentListAdmits(C, h[i+1:])
}

func bodilessByDefault(m string) bool {
	return m == "GET" || m == "HEAD" || m == "OPTIONS" || m == "DELETE" || m == "TRACE"
}

// ctAdmits: "its Content-Type is admitted by the route's Consumes list" — an
// empty list admits everything; a missing Content-Type is admitted for the
// methods that normally carry no body (or the route's own list of such
// methods) and otherwise counts as application/octet-stream.
func ctAdmits(consumes []string, method string, without []string, h string) bool {
	if len(consumes) == 0 {
		return true
	}
	if len(h) == 0 {
		if len(without) > 0 {
			if exists(0, len(without), func(k int) bool { return without[k] == method }) {
				return true
			}
		} else if bodilessByDefault(method) {
			return true
		}
		return contentListAdmits(consumes, MIME_OCTET)
	}
	return contentListAdmits(consumes, h)
}

func noEmptyEntry(L []string) bool {
	return forall(0, len(L), func(k int) bool { return L[k] != "" })
}

// joinFrom(parts, off): parts[off:] joined by "/".
func joinFrom(parts []string, off int) string {
	if off >= len(parts) {
		return ""
	}
	if off == len(parts)-1 {
		return parts[off]
	}
	return parts[off] + "/" + joinFrom(parts, off+1)
}

// tokens of a URL path under the default strategy (TrimRightSlashEnabled):
// "/" has none; otherwise the path is trimmed of slashes and split at "/".
func tokCount(p string) int {
	if p == "/" {
		return 0
	}
	return model_splitCount(model_strings_Trim(p, "/"), "/")
}

func tokAt(p string, k int) string {
	return model_splitPart(model_strings_Trim(p, "/"), "/", k)
}

// isTokens(T, p): T is the token sequence of path p.
func isTokens(T []string, p string) bool {
	return len(T) == tokCount(p) && forall(0, len(T), func(k int) bool { return T[k] == tokAt(p, k) })
}
