//go:build go1.18

package restful

// Spec-only intrinsics understood by govc (see /verif/DESIGN.md §4.2).
// Their Go bodies are the executable rendering used by replay and by the
// bounded stand-ins; govc gives them their logical meaning.

// old(e): value of e in the pre-state of the call.
func old[T any](x T) T { return x }

// forall(lo, hi, p): p(k) for every lo <= k < hi.
func forall(lo, hi int, p func(int) bool) bool {
	for k := lo; k < hi; k++ {
		if !p(k) {
			return false
		}
	}
	return true
}

// exists(lo, hi, p): p(k) for some lo <= k < hi.
func exists(lo, hi int, p func(int) bool) bool {
	for k := lo; k < hi; k++ {
		if p(k) {
			return true
		}
	}
	return false
}

func implies(a, b bool) bool { return !a || b }

// forallStr / existsStr: unbounded quantification over strings (proof only).
func forallStr(p func(string) bool) bool { panic("spec only: unbounded quantifier") }
func existsStr(p func(string) bool) bool { panic("spec only: unbounded quantifier") }
func forallInt(p func(int) bool) bool    { panic("spec only: unbounded quantifier") }

// fresh(x): the object x refers to was allocated by the current call.
func fresh[T any](x T) bool { return true }

// sameArray(a, b): the two slices share their backing array.
func sameArray[T any](a, b []T) bool { return cap(a) > 0 && cap(b) > 0 && &a[:1][0] == &b[:1][0] }

// ptrInto(p, s): p points at an element of s; ptrIndex gives which one; ptrAt(s,k) == &s[k].
func ptrInto[T any](p *T, s []T) bool {
	for i := range s {
		if &s[i] == p {
			return true
		}
	}
	return false
}
func ptrIndex[T any](p *T, s []T) int {
	for i := range s {
		if &s[i] == p {
			return i
		}
	}
	return -1
}
func ptrAt[T any](s []T, k int) *T { return &s[k] }

// same(a, b): a and b are the same value (logical equality, also for types Go
// cannot compare with ==). Executable rendering: identical copies compare equal.
func same[T any](a, b T) bool { return verifSame(a, b) }

// --- ghost state -------------------------------------------------------------

// traceT: the sequence of dynamic calls (filters, route functions, handlers,
// callbacks) made directly by the current activation and by contracted callees.
type traceT struct{ n int }

func calls() traceT { return traceT{} }

// traceCall(t, f, a0, a1, a2): t extended by one call of f with these arguments.
func traceCall[F any](t traceT, f F, a0, a1, a2 interface{}) traceT { return traceT{t.n + 1} }

// ghostInt / ghostIface: per-object ghost fields maintained by the assumed
// contracts of interface methods (e.g. bytes accepted by a writer).
func ghostInt(name string, key interface{}) int           { return 0 }
func ghostIface(name string, key interface{}) interface{} { return nil }

// mapVal(m): the contents of map m as a value (domain and values), for
// comparing a map with its earlier self: same(mapVal(m), old(mapVal(m))).
func mapVal[M any](m M) M { return m }

// lastCallee(t, f): the most recent call in t was a call of f.
func lastCallee[F any](t traceT, f F) bool { return t.n > 0 }

// ghostIntAtEntry(name, key): the ghost field as it was when the function (or
// the call, at a call site) started — for a key computed in the current state.
func ghostIntAtEntry(name string, key interface{}) int { return 0 }

// sameStart(a, b): a and b start at the same element of the same backing array.
func sameStart[T any](a, b []T) bool { return cap(a) > 0 && cap(b) > 0 && &a[:1][0] == &b[:1][0] }

// verifTriggerSink marks a term as part of a quantifier trigger (lemma `trigger` clauses).
func verifTriggerSink[T any](x T) {}

// ghostHas(name, key, elem): membership in a set-valued ghost field.
func ghostHas(name string, key interface{}, elem string) bool { return false }

// visited(k): inside the invariant of a range loop over a string-keyed map,
// the key k has been produced by an earlier iteration (proof only).
func visited(k string) bool { return false }

// forallProbe: in proofs an unbounded quantifier over strings (only ever assumed,
// from a trusted contract); when the contract is executed as a bounded stand-in
// it ranges over the probe pool below.
func forallProbe(p func(string) bool) bool {
	for _, s := range verifProbes {
		if !p(s) {
			verifProbeFailed = s
			return false
		}
	}
	return true
}

var verifProbeFailed string

// request paths probed against every template of the pool of newPathExpression's contract
var verifProbes = []string{
	"", "/", "//", "/a", "/a/", "/ab", "/a/b", "/a/b/", "/a/b/c", "/a//b", "/b", "/b/a", "/x/b", "/x/y", "/x/y/z",
	"/v1.0/items/7", "/v1x0/items/7", "/v1.0/items", "/v1.0/items/7/more", "/a b/3", "/a%20b/3", "/a+b/3", "/aab/3", "/x+y", "/xxy", "/x%2By",
	"/a.json", "/aXjson", "/a(b)/1", "/ab/1", "/a$/1", "/a/1", "/é/1", "/%C3%A9/1", "/a,b;c/1", "/a%2Cb%3Bc/1", "a", "a/b",
}

// unchangedSinceRange(m): inside the invariant of a range loop over m, the map
// still has the value it had when the range started (then the loop ends only
// after every key was visited).
func unchangedSinceRange[K comparable, V any](m map[K]V) bool { return true }
