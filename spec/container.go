//go:build go1.18

package restful

// Well-formedness of the configuration dispatch runs under (the `is_valid`
// preconditions): no nil function values where the framework calls one.

func wfContainer(c *Container) bool {
	return c.router != nil && c.recoverHandleFunc != nil && c.serviceErrorHandleFunc != nil &&
		forall(0, len(c.containerFilters), func(k int) bool { return c.containerFilters[k] != nil })
}

func wfRouteFns(r *Route) bool {
	return r.Function != nil && forall(0, len(r.Filters), func(k int) bool { return r.Filters[k] != nil })
}

func wfServiceFns(ws *WebService) bool {
	return forall(0, len(ws.filters), func(k int) bool { return ws.filters[k] != nil })
}

// lock ghost: 0 free, n > 0 read-held n times by this goroutine, -1 write-held
func servicesLock(c *Container) int { return ghostInt("lock.Container.webServicesLock", c) }
func routesLockOf(w *WebService) int { return ghostInt("lock.WebService.routesLock", w) }

// chainOK: precondition of FilterChain.ProcessFilter as a predicate.
func chainOK(f *FilterChain) bool {
	return f != nil && 0 <= f.Index &&
		forall(0, len(f.Filters), func(k int) bool { return f.Filters[k] != nil }) &&
		(f.Index < len(f.Filters) || f.Target != nil)
}

// matchersOK: the compiled path expressions computeAllowedMethods relies on exist.
func matchersOK(ws *WebService) bool {
	return ws != nil && ws.pathExpr != nil && ws.pathExpr.Matcher != nil && routesLockOf(ws) >= 0 &&
		forall(0, len(ws.routes), func(k int) bool { return ws.routes[k].pathExpr != nil && ws.routes[k].pathExpr.Matcher != nil })
}

// processorFor: the path processor dispatch must use with router r — the
// router itself when it implements PathProcessor, the default one otherwise (C04).
func processorFor(r RouteSelector, p PathProcessor) bool {
	if pp, ok := r.(PathProcessor); ok {
		return same(p, pp)
	}
	_, isDefault := p.(defaultPathProcessor)
	return isDefault
}
