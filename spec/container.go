//go:build go1.18

package restful

// Well-formedness of the configuration dispatch runs under (the `is_valid`
// preconditions): no nil function values where the framework calls one.

func wfContainer(c *Container) bool {
	return c.router != nil && c.recoverHandleFunc != nil && c.serviceErrorHandleFunc != nil &&
		forall(0, len(c.containerFilters), func(k int) bool { return c.containerFilters[k] != nil })
}

func wfRouteFns(r *Route) bool {
	return r.Function != nil && forall(0, len(r.Filters), func(k int) bool { return r.Filters[k] != nil })
}

func wfServiceFns(ws *WebService) bool {
	return forall(0, len(ws.filters), func(k int) bool { return ws.filters[k] != nil })
}

// lock ghost: 0 free, n > 0 read-held n times by this goroutine, -1 write-held
func servicesLock(c *Container) int { return ghostInt("lock.Container.webServicesLock", c) }
func routesLockOf(w *WebService) int { return ghostInt("lock.WebService.routesLock", w) }
