//go:build go1.18

package restful

import "reflect"

func verifSame(a, b interface{}) bool {
	return reflect.DeepEqual(a, b) || shallowSame(reflect.ValueOf(a), reflect.ValueOf(b))
}

// shallowSame: field-wise identity (same slice headers, same map/func pointers) — what a copy preserves.
func shallowSame(a, b reflect.Value) bool {
	if a.Kind() != b.Kind() {
		return false
	}
	switch a.Kind() {
	case reflect.Struct:
		for i := 0; i < a.NumField(); i++ {
			if !shallowSame(a.Field(i), b.Field(i)) {
				return false
			}
		}
		return true
	case reflect.Slice:
		return a.Len() == b.Len() && (a.Len() == 0 || a.Pointer() == b.Pointer())
	case reflect.Map, reflect.Func, reflect.Ptr, reflect.Chan, reflect.UnsafePointer:
		return a.Pointer() == b.Pointer()
	case reflect.Interface:
		if a.IsNil() || b.IsNil() {
			return a.IsNil() == b.IsNil()
		}
		return shallowSame(a.Elem(), b.Elem())
	case reflect.String:
		return a.String() == b.String()
	case reflect.Bool:
		return a.Bool() == b.Bool()
	case reflect.Int, reflect.Int8, reflect.Int16, reflect.Int32, reflect.Int64:
		return a.Int() == b.Int()
	case reflect.Uint, reflect.Uint8, reflect.Uint16, reflect.Uint32, reflect.Uint64, reflect.Uintptr:
		return a.Uint() == b.Uint()
	case reflect.Float32, reflect.Float64:
		return a.Float() == b.Float()
	}
	return false
}
