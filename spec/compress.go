//go:build go1.18

package restful

import (
	"compress/gzip"
	"compress/zlib"
	"io"
	"net/http"
)

// Ghost view of pooled compressors (C07, C13): how many holders an object has
// (a provider hands out only objects nobody holds), which writer it was last
// Reset onto, and whether it was closed since.

func heldBy(x interface{}) int { return ghostInt("held", x) }

// readerHeld: pooled gzip readers are held only by ReadEntity, between its
// Acquire and its deferred Release; user callbacks have no handle on them
// (ghost names under own. are not havocked by callbacks, A-CB).
func readerHeld(r *gzip.Reader) int { return ghostInt("own.rheld", r) }

func resetTarget(x interface{}) interface{} { return ghostIface("ztarget", x) }

func zClosed(x interface{}) int { return ghostInt("zclosed", x) }

func isGzipWriter(w io.WriteCloser) bool { _, ok := w.(*gzip.Writer); return ok }
func isZlibWriter(w io.WriteCloser) bool { _, ok := w.(*zlib.Writer); return ok }

func isCRW(w http.ResponseWriter) bool { _, ok := w.(*CompressingResponseWriter); return ok }

// validCRW: an open compressing writer owns a compressor of the right kind
// that was Reset onto the underlying writer.
func validCRW(c *CompressingResponseWriter) bool {
	return c.compressor == nil ||
		(c.writer != nil && heldBy(c.compressor) == 1 &&
			((c.encoding == "gzip" && isGzipWriter(c.compressor)) || (c.encoding == "deflate" && isZlibWriter(c.compressor))))
}

// ownCloses(c): how often package code has called c.Close() (a ghost counter
// only the Close contract advances; callbacks cannot touch it).
func ownCloses(c *CompressingResponseWriter) int { return ghostInt("own.closes", c) }

// encodingEnabledFor: the route's own setting overrides the container's.
func encodingEnabledFor(c *Container, r *Route) bool {
	if r != nil && r.contentEncodingEnabled != nil {
		return *r.contentEncodingEnabled
	}
	return c.contentEncodingEnabled
}

// registryOK: no nil accessor is registered.
func registryOK(r *entityReaderWriters) bool {
	return r.accessors != nil && forallStr(func(k string) bool {
		v, ok := r.accessors[k]
		return !ok || v != nil
	})
}

// isGzipReaderOnBody: the request body is a gzip.Reader that was Reset onto the original body.
func isGzipReaderOnBody(r *Request, orig io.ReadCloser) bool {
	g, ok := r.Request.Body.(*gzip.Reader)
	return ok && g != nil && resetTarget(g) == orig && readerHeld(g) == 1
}

// regHas: an accessor is registered under exactly this key.
func regHas(r *entityReaderWriters, k string) bool { _, ok := r.accessors[k]; return ok }

// The default provider keeps its compressors in three sync.Pools (C13, A-POOL). poolKind(p) says what a
// pool holds — 1 gzip writers, 2 gzip readers, 3 zlib writers — as NewSyncPoolCompessors sets it up; the
// fields are exported, so a user who replaces a pool is assumed to keep its kind.
func poolKind(p interface{}) int { return ghostInt("poolkind", p) }

func anyGzipWriter(x interface{}) bool { w, ok := x.(*gzip.Writer); return ok && w != nil }
func anyGzipReader(x interface{}) bool { r, ok := x.(*gzip.Reader); return ok && r != nil }
func anyZlibWriter(x interface{}) bool { w, ok := x.(*zlib.Writer); return ok && w != nil }

// syncPoolsOK: the three pools exist and hold what their names say.
func syncPoolsOK(s *SyncPoolCompessors) bool {
	return s != nil && s.GzipWriterPool != nil && s.GzipReaderPool != nil && s.ZlibWriterPool != nil &&
		poolKind(s.GzipWriterPool) == 1 && poolKind(s.GzipReaderPool) == 2 && poolKind(s.ZlibWriterPool) == 3
}
