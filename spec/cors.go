//go:build go1.18

package restful

import (
	"net/http"
	"net/textproto"
	"strings"
)

// --- header lists -------------------------------------------------------------

func hvals(h http.Header, k string) []string { return h[textproto.CanonicalMIMEHeaderKey(k)] }
func hcount(h http.Header, k string) int     { return len(hvals(h, k)) }
func hlast(h http.Header, k string) string   { return hvals(h, k)[len(hvals(h, k))-1] }

// appended(h, k, v, n): since the pre-state the list of k grew by exactly [v] (n = old count).
func appendedOne(h http.Header, k string, v string, n int) bool {
	return hcount(h, k) == n+1 && hlast(h, k) == v
}

// --- C08: which origins are allowed --------------------------------------------

// originAllowed: no restriction configured, or the origin equals (ignoring case)
// one whole entry of the allowed list, or the list has the wildcard entry, or
// the configured predicate accepts it (in either spelling).
func originAllowed(c CrossOriginResourceSharing, o string) bool {
	return o != "" &&
		((len(c.AllowedDomains) == 0 && c.AllowedDomainFunc == nil) ||
			exists(0, len(c.AllowedDomains), func(k int) bool {
				return c.AllowedDomains[k] == ".*" || strings.ToLower(c.AllowedDomains[k]) == strings.ToLower(o)
			}) ||
			(c.AllowedDomainFunc != nil && (c.AllowedDomainFunc(o) || c.AllowedDomainFunc(strings.ToLower(o)))))
}

// --- C09: preflight -------------------------------------------------------------

func methodAllowed(methods []string, m string) bool {
	return exists(0, len(methods), func(k int) bool { return methods[k] == m })
}

func headerAllowed(c CrossOriginResourceSharing, h string) bool {
	return exists(0, len(c.AllowedHeaders), func(k int) bool {
		return strings.ToLower(c.AllowedHeaders[k]) == strings.ToLower(h) || c.AllowedHeaders[k] == "*"
	})
}

// headersAllowed: every requested header (comma separated, spaces trimmed) is allowed.
func headersAllowed(c CrossOriginResourceSharing, acrhs string) bool {
	return len(acrhs) == 0 || forall(0, model_splitCount(acrhs, ","), func(k int) bool {
		return headerAllowed(c, model_strings_Trim(model_splitPart(acrhs, ",", k), " "))
	})
}

// originDecision: the decision procedure of the filter (exact list match
// first, predicate as a fallback); it implies originAllowed.
func originDecision(c CrossOriginResourceSharing, o string) bool {
	if len(o) == 0 {
		return false
	}
	if len(c.AllowedDomains) == 0 {
		if c.AllowedDomainFunc != nil {
			return c.AllowedDomainFunc(strings.ToLower(o))
		}
		return true
	}
	if exists(0, len(c.AllowedDomains), func(k int) bool {
		return c.AllowedDomains[k] == ".*" || strings.ToLower(c.AllowedDomains[k]) == strings.ToLower(o)
	}) {
		return true
	}
	if c.AllowedDomainFunc != nil {
		return c.AllowedDomainFunc(o)
	}
	return false
}

// corsContainerOK: the container whose routes answer "which methods are routable here".
func corsContainerOK(cc *Container) bool {
	return cc != nil && servicesLock(cc) >= 0 &&
		forall(0, len(cc.webServices), func(i int) bool { return matchersOK(cc.webServices[i]) })
}
