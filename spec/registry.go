//go:build go1.18

package restful

import (
	"net/http"
	"strings"
)

// Abstract view of a Container's registration state (C11).

// muxHas(m, p): pattern p is registered on ServeMux m (ghost set maintained by
// the assumed contracts of ServeMux.Handle/HandleFunc).
//
//govc:opaque
func muxHas(m *http.ServeMux, p string) bool { return ghostHas("muxpat", m, p) }

func fixedPrefixSpec(s string) string {
	i := strings.Index(s, "{")
	if i < 0 {
		return s
	}
	return s[:i]
}

func svcPattern(ws *WebService) string { return fixedPrefixSpec(ws.rootPath) }

func isRootSvc(ws *WebService) bool { return svcPattern(ws) == "/" || svcPattern(ws) == "" }

// svcRegisters(ws, p): p is one of the patterns ws asks the ServeMux for.
func svcRegisters(ws *WebService, p string) bool {
	if isRootSvc(ws) {
		return p == "/"
	}
	return p == svcPattern(ws) || (!strings.HasSuffix(svcPattern(ws), "/") && p == svcPattern(ws)+"/")
}

// rootSeen(W, n): one of the first n services registered "/" (after that nothing else is registered).
func rootSeen(W []*WebService, n int) bool {
	return exists(0, n, func(j int) bool { return isRootSvc(W[j]) })
}

// listRegisters(W, n, p): p is registered by the first n services of W.
func listRegisters(W []*WebService, n int, p string) bool {
	return exists(0, n, func(k int) bool { return !rootSeen(W, k) && svcRegisters(W[k], p) })
}

func servicesNonNil(W []*WebService) bool {
	return forall(0, len(W), func(k int) bool { return W[k] != nil })
}

// muxExact(m, W): the ServeMux holds exactly the patterns of the services in W.
func muxExact(m *http.ServeMux, W []*WebService) bool {
	return forallStr(func(p string) bool { return muxHas(m, p) == listRegisters(W, len(W), p) })
}

// wfRegistry: the representation invariant of a Container without plain handlers.
func wfRegistry(c *Container) bool {
	return c.ServeMux != nil && servicesNonNil(c.webServices) && muxExact(c.ServeMux, c.webServices) &&
		c.isRegisteredOnRoot == rootSeen(c.webServices, len(c.webServices))
}

func rootsDistinctFrom(W []*WebService, ws *WebService) bool {
	return forall(0, len(W), func(k int) bool { return W[k].rootPath != ws.rootPath })
}
