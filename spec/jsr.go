package restful

import (
	"regexp"
	"strings"
)

// Oracle for A-JSR on the fragment both routers document (literal segments and
// plain {variables}): which request paths the regular expression compiled from
// a template must match. Written from the JSR-311 description of the matching
// stage, not from templateToRegularExpression: every template segment consumes
// "/" plus one whole path segment (a literal must equal it, a variable takes
// any non-empty one), and what is left over is empty or starts with "/".
//
// Only executed (bounded stand-in of newPathExpression's trusted contract); in
// proofs it is an uninterpreted function.

//govc:opaque
func jsrAdmits(template string, path string) bool {
	rest := path
	for _, t := range strings.Split(template, "/") {
		if t == "" {
			continue
		}
		if !strings.HasPrefix(rest, "/") {
			return false
		}
		rest = rest[1:]
		seg := rest
		if i := strings.Index(rest, "/"); i >= 0 {
			seg = rest[:i]
		}
		if strings.HasPrefix(t, "{") {
			if seg == "" {
				return false
			}
		} else if seg != t {
			return false
		}
		rest = rest[len(seg):]
	}
	return rest == "" || strings.HasPrefix(rest, "/")
}

// jsrFragment: the template uses only literal segments and plain variables.
//
//govc:opaque
func jsrFragment(template string) bool {
	for _, t := range strings.Split(template, "/") {
		if strings.HasPrefix(t, "{") {
			if !strings.HasSuffix(t, "}") || strings.ContainsAny(t[1:len(t)-1], "{}:") {
				return false
			}
		} else if strings.ContainsAny(t, "{}") {
			return false
		}
	}
	return true
}

// rxMatches: the compiled expression matches the string.
//
//govc:opaque
func rxMatches(re *regexp.Regexp, s string) bool { return re != nil && re.MatchString(s) }

// --- the regular-expression engine as two deterministic functions (A-JSR) -----
// rxSubN(re, s): -1 when re does not match s, otherwise the length of
// FindStringSubmatch's result (1 + number of groups); rxSubAt gives its elements.

//govc:opaque
func rxSubN(re *regexp.Regexp, s string) int {
	m := re.FindStringSubmatch(s)
	if m == nil {
		return -1
	}
	return len(m)
}

//govc:opaque
func rxSubAt(re *regexp.Regexp, s string, i int) string { return re.FindStringSubmatch(s)[i] }

// --- ranking keys of RouterJSR311 (C03) ------------------------------------------

// jsrRouteLess: x sorts before y in ascending order — fewer literal characters,
// then fewer groups, then fewer non-default groups, then the smaller path.
func jsrRouteLess(x, y routeCandidate) bool {
	if x.literalCount != y.literalCount {
		return x.literalCount < y.literalCount
	}
	if x.matchesCount != y.matchesCount {
		return x.matchesCount < y.matchesCount
	}
	if x.nonDefaultCount != y.nonDefaultCount {
		return x.nonDefaultCount < y.nonDefaultCount
	}
	return x.route.Path < y.route.Path
}

// jsrDispLess: the same for WebService candidates (groups first, then literal characters).
func jsrDispLess(x, y dispatcherCandidate) bool {
	if x.matchesCount != y.matchesCount {
		return x.matchesCount < y.matchesCount
	}
	if x.literalCount != y.literalCount {
		return x.literalCount < y.literalCount
	}
	return x.nonDefaultCount < y.nonDefaultCount
}

// --- which services and routes the JSR311 stages keep ------------------------------

func jsrSvcOK(ws *WebService) bool { return ws != nil && ws.pathExpr != nil && ws.pathExpr.Matcher != nil }

func jsrSvcHit(ws *WebService, p string) bool { return rxSubN(ws.pathExpr.Matcher, p) >= 1 }

// jsrFinal: what the root expression leaves over (its last group).
func jsrFinal(ws *WebService, p string) string {
	return rxSubAt(ws.pathExpr.Matcher, p, rxSubN(ws.pathExpr.Matcher, p)-1)
}

func jsrRouteOK(rt Route) bool { return rt.pathExpr != nil && rt.pathExpr.Matcher != nil }

// jsrRouteHit: the route expression matches the remainder and leaves nothing but an optional "/".
func jsrRouteHit(rt Route, rest string) bool {
	n := rxSubN(rt.pathExpr.Matcher, rest)
	return n >= 1 && (rxSubAt(rt.pathExpr.Matcher, rest, n-1) == "" || rxSubAt(rt.pathExpr.Matcher, rest, n-1) == "/")
}

// the candidate record the dispatcher stage builds for a matching service
func jsrDispCand(ws *WebService, p string) dispatcherCandidate {
	return dispatcherCandidate{ws, jsrFinal(ws, p), rxSubN(ws.pathExpr.Matcher, p), ws.pathExpr.LiteralCount, ws.pathExpr.VarCount}
}

// the candidate record the route stage builds for a matching route
func jsrRouteCand(rt Route, rest string) routeCandidate {
	return routeCandidate{rt, rxSubN(rt.pathExpr.Matcher, rest) - 1, rt.pathExpr.LiteralCount, rt.pathExpr.VarCount}
}

func jsrRoutesOK(ws *WebService) bool {
	return forall(0, len(ws.routes), func(k int) bool { return jsrRouteOK(ws.routes[k]) && wfRouteLists(ws.routes[k]) })
}

// --- which methods are routable at a URL, as the OPTIONS/CORS code computes it (C09, C17) ---

// svcAllows: the service's root expression matches p and one of its routes with
// this method matches what the root expression leaves over.
func svcAllows(ws *WebService, p string, method string) bool {
	return jsrSvcHit(ws, p) && exists(0, len(ws.routes), func(j int) bool {
		return jsrRouteHit(ws.routes[j], jsrFinal(ws, p)) && ws.routes[j].Method == method
	})
}

func jsrContainerOK(c *Container) bool {
	return forall(0, len(c.webServices), func(i int) bool {
		return jsrSvcOK(c.webServices[i]) && jsrRoutesOK(c.webServices[i])
	})
}

// --- parameter extraction of RouterJSR311 (C04) -------------------------------------

func strMapHas(m map[string]string, k string) bool { _, ok := m[k]; return ok }

// groupBinds: group i of a match (1-based) is bound to a declared variable name.
func groupBinds(names []string, i int) bool { return 1 <= i && i <= len(names) }

// lastBinding: no later group of the same match is bound to the same name.
func lastBinding(names []string, n int, i int) bool {
	return forall(i+1, n, func(i2 int) bool { return !(groupBinds(names, i2) && names[i2-1] == names[i-1]) })
}

// rootBinds / routeBinds: the name is declared for some group of the respective match.
func rootBinds(ws *WebService, p string, k string) bool {
	return exists(1, rxSubN(ws.pathExpr.Matcher, p), func(i int) bool {
		return groupBinds(ws.pathExpr.VarNames, i) && ws.pathExpr.VarNames[i-1] == k
	})
}

func routeBinds(rt *Route, ws *WebService, p string, k string) bool {
	return exists(1, rxSubN(rt.pathExpr.Matcher, jsrFinal(ws, p)), func(i int) bool {
		return groupBinds(rt.pathExpr.VarNames, i) && rt.pathExpr.VarNames[i-1] == k
	})
}
