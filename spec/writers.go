//go:build go1.18

package restful

import "net/http"

// Ghost view of an http.ResponseWriter whose implementation is unknown
// (DESIGN §5): bytes accepted so far, last error returned by Write, last
// status passed to WriteHeader, and the header map it hands out.

func accepted(w http.ResponseWriter) int        { return ghostInt("accepted", w) }
func lastWriteErr(w http.ResponseWriter) error  { e, _ := ghostIface("lasterr", w).(error); return e }
func statusReceived(w http.ResponseWriter) int  { return ghostInt("wstatus", w) }
func headerCalls(w http.ResponseWriter) int     { return ghostInt("whdrcalls", w) }
func writeCalls(w http.ResponseWriter) int      { return ghostInt("wcalls", w) }
func writeHeaderCalls(w http.ResponseWriter) int { return ghostInt("whcalls", w) }

// hdrOf(w): the header map w.Header() returns (the same map on every call).
//
//govc:opaque
func hdrOf(w http.ResponseWriter) http.Header { return w.Header() }
