#!/usr/bin/env python3
"""Must-fail / must-pass corpus for the machinery itself (DESIGN section 9).
Each case edits a scratch copy of /repo (under /tmp, removed afterwards), runs the property's check
against the copy and compares the exit status with the expectation.
usage: run.py [name-substring ...]   (environment: SELFTEST_JOBS=n)"""
import json, os, shutil, subprocess, sys, tempfile, concurrent.futures

HERE = os.path.dirname(os.path.abspath(__file__))
cases = json.load(open(os.path.join(HERE, "cases.json")))
# reverted fix commits are canaries too
claimed = {c["property_id"] for c in json.load(open(os.path.join(HERE, "..", "MANIFEST.json")))["checks"]}
for line in json.load(open(os.path.join(HERE, "..", "known_findings.json")))["fixed"]:
    parts = line.split()
    prop = parts[1].split("=")[1]; commit = parts[2]
    if prop not in claimed:
        continue  # a fix recorded for a property that has no registered check
    cases.append({"name": f"revert-{commit}-{prop}", "property": prop, "revert": commit, "expect": "violation", "why": line})
sel = sys.argv[1:]
if sel:
    cases = [c for c in cases if any(s in c["name"] for s in sel)]

def run(c):
    d = tempfile.mkdtemp(prefix="govc-selftest-")
    try:
        repo = os.path.join(d, "repo")
        shutil.copytree("/repo", repo, ignore=shutil.ignore_patterns(".git"))
        if "revert" in c:
            diff = subprocess.run(["git", "-C", "/repo", "diff", c["revert"], c["revert"] + "^"], capture_output=True, text=True).stdout
            p = subprocess.run(["patch", "-p1", "-d", repo], input=diff, capture_output=True, text=True)
            if p.returncode != 0:
                return c, "SKIP", "revert does not apply to the current tree any more (later commits touched the same lines; an explicit case in cases.json stands in)"
        else:
            f = os.path.join(repo, c["file"])
            s = open(f).read()
            if c["old"] not in s:
                return c, "ERROR", "pattern not found in " + c["file"]
            open(f, "w").write(s.replace(c["old"], c["new"], 1))
            b = subprocess.run(["go", "build", "./..."], cwd=repo, capture_output=True, text=True,
                               env=dict(os.environ, GOFLAGS="-mod=mod", GOPROXY="off", GOSUMDB="off", GOTOOLCHAIN="local"))
            if b.returncode != 0:
                return c, "ERROR", "mutant does not compile: " + b.stderr[-300:]
        ev = os.path.join(d, "evidence.json")
        r = subprocess.run(["/verif/bin/govc", "check", "-repo", repo, "--property", c["property"], "-t", ("30" if c["expect"] == "pass" else "12"), "-evidence", ev],
                           capture_output=True, text=True, cwd="/verif")
        got = {0: "pass", 1: "violation"}.get(r.returncode, "broken(%d)" % r.returncode)
        lines = [l for l in r.stdout.split("\n") if l.startswith("FAILED") or l.startswith("VIOLATION") or l.startswith("UNDECIDED")]
        return c, got, "; ".join(l[:160] for l in lines[:3])
    finally:
        shutil.rmtree(d, ignore_errors=True)

bad = 0
with concurrent.futures.ThreadPoolExecutor(max_workers=int(os.environ.get("SELFTEST_JOBS", "3"))) as ex:
    for c, got, detail in ex.map(run, cases):
        ok = got == c["expect"] or got == "SKIP"
        bad += not ok
        print(("ok   " if ok else "MISS ") + f"{c['name']:38s} {c['property']} expect={c['expect']:9s} got={got:9s} {detail}")
print("selftest:", len(cases) - bad, "of", len(cases), "as expected")
sys.exit(1 if bad else 0)
