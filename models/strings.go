//go:build go1.18

package restful

import "strings"

// Assumed models of package strings (DESIGN §5), written as recursive Go
// functions so that (a) govc turns them into SMT definitions and (b) the
// model-validation test can compare them with the real functions.
// All of them are stated under A-BYTE (one SMT character per byte).

// model_splitCount(s, sep) == len(strings.Split(s, sep)) for non-empty sep.
func model_splitCount(s, sep string) int {
	i := strings.Index(s, sep)
	if i < 0 || len(sep) == 0 { // (empty separators are outside the model; the guard keeps the definition terminating)
		return 1
	}
	return 1 + model_splitCount(s[i+len(sep):], sep)
}

// model_splitPart(s, sep, k) == strings.Split(s, sep)[k] for 0 <= k < count.
func model_splitPart(s, sep string, k int) string {
	i := strings.Index(s, sep)
	if i < 0 || len(sep) == 0 {
		return s
	}
	if k <= 0 {
		return s[:i]
	}
	return model_splitPart(s[i+len(sep):], sep, k-1)
}

// strings.Join
func model_strings_Join(elems []string, sep string) string {
	if len(elems) == 0 {
		return ""
	}
	if len(elems) == 1 {
		return elems[0]
	}
	return model_strings_Join(elems[:len(elems)-1], sep) + sep + elems[len(elems)-1]
}

// strings.TrimLeft / TrimRight / Trim for cut sets of single-byte characters.
func model_strings_TrimLeft(s, cutset string) string {
	if len(s) > 0 && strings.Contains(cutset, s[:1]) {
		return model_strings_TrimLeft(s[1:], cutset)
	}
	return s
}

func model_strings_TrimRight(s, cutset string) string {
	if len(s) > 0 && strings.Contains(cutset, s[len(s)-1:]) {
		return model_strings_TrimRight(s[:len(s)-1], cutset)
	}
	return s
}

func model_strings_Trim(s, cutset string) string {
	return model_strings_TrimRight(model_strings_TrimLeft(s, cutset), cutset)
}
