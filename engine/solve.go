package main

// Solver portfolio: z3 4.8.12, z3-new 5.1.0, cvc5 1.0.3 raced per obligation.

import (
	"runtime"
	"context"
	"fmt"
	"go/types"
	"os"
	"os/exec"
	"path/filepath"
	"regexp"
	"sort"
	"strings"
	"sync"
	"time"
)

type solverSpec struct {
	name  string
	style string
	argv  func(file string, secs int) []string
}

var solvers = []solverSpec{
	{"z3-new", "z3", func(f string, s int) []string { return []string{"z3-new", fmt.Sprintf("-T:%d", s), f} }},
	{"z3", "z3", func(f string, s int) []string { return []string{"z3", fmt.Sprintf("-T:%d", s), f} }},
	{"cvc5", "cvc5", func(f string, s int) []string {
		return []string{"cvc5", "--strings-exp", fmt.Sprintf("--tlimit=%d", s*1000), "--produce-models", f}
	}},
}

var safeNameRe = regexp.MustCompile(`[^A-Za-z0-9_.#:@-]+`)

// Discharge runs the portfolio on every obligation.
func Discharge(results []*FuncResult, workDir string, secs int, par int, seed int) {
	type job struct {
		fr *FuncResult
		o  *Obligation
	}
	var jobs []job
	for _, r := range results {
		for _, o := range r.Obligations {
			jobs = append(jobs, job{r, o})
		}
	}
	os.MkdirAll(workDir, 0o755)
	var wg sync.WaitGroup
	sem := make(chan struct{}, par)
	for i, j := range jobs {
		j := j
		i := i
		if j.o.Goal.S == "true" || j.o.Reach.S == "false" {
			if j.o.MustFail {
				j.o.Status = "discharged" // canary proved => vacuous path, reported by caller
				j.o.Solver = "trivial"
			} else {
				j.o.Status = "discharged"
				j.o.Solver = "trivial"
			}
			continue
		}
		wg.Add(1)
		sem <- struct{}{}
		go func() {
			defer wg.Done()
			defer func() { <-sem }()
			solveOne(j.fr.VC, j.o, workDir, i, secs, seed)
		}()
	}
	wg.Wait()
	// Second chance: an obligation left undecided while the machine was busy
	// with many queries at once is tried again with little else running. (A
	// proof must not depend on how loaded the machine was.)
	var again []job
	for _, j := range jobs {
		if !j.o.MustFail && (j.o.Status == "timeout" || j.o.Status == "unknown") {
			again = append(again, j)
		}
	}
	if len(again) > 0 && len(again) <= 12 {
		sem2 := make(chan struct{}, 2)
		for i, j := range again {
			j := j
			i := i
			wg.Add(1)
			sem2 <- struct{}{}
			go func() {
				defer wg.Done()
				defer func() { <-sem2 }()
				first := j.o.Output
				solveOne(j.fr.VC, j.o, workDir, 100000+i, secs, seed+1)
				if j.o.Status != "discharged" && j.o.Status != "failed" {
					j.o.Output = first + " || second attempt: " + j.o.Output
				} else {
					j.o.Solver = "retry/" + j.o.Solver
				}
			}()
		}
		wg.Wait()
	}
}

func solveOne(vc *VC, o *Obligation, workDir string, idx int, secs int, seed int) {
	if o.MustFail {
		// vacuity canaries only need "not provable"; a short limit is enough
		t := secs
		if t > 3 {
			t = 3
		}
		solveVariant(context.Background(), vc, o, workDir, idx, t, seed, nil, "")
		return
	}
	ctx, cancel := context.WithCancel(context.Background())
	defer cancel()
	whole := &Obligation{Name: o.Name, Reach: o.Reach, Goal: o.Goal, NDecls: o.NDecls, Inputs: o.Inputs}
	doneWhole := make(chan struct{})
	go func() {
		solveVariant(ctx, vc, whole, workDir, idx, secs, seed, nil, "")
		close(doneWhole)
	}()
	adopt := func(src *Obligation) {
		o.Status, o.Solver, o.Seconds, o.Output, o.Model, o.Size, o.Verdicts = src.Status, src.Solver, src.Seconds, src.Output, src.Model, src.Size, src.Verdicts
	}
	t0 := time.Now()
	select {
	case <-doneWhole:
		adopt(whole)
		if o.Status == "discharged" || o.Status == "failed" {
			return
		}
	case <-time.After(1500 * time.Millisecond):
	}
	// undecided so far: split the path condition at the merge points it implies, in parallel
	cases := vc.splitCases(o, 48)
	if len(cases) < 2 {
		<-doneWhole
		adopt(whole)
		return
	}
	subs := make([]*Obligation, len(cases))
	doneSplit := make(chan struct{})
	go func() {
		var wg sync.WaitGroup
		sem := make(chan struct{}, 6)
		for k, c := range cases {
			k, c := k, c
			subs[k] = &Obligation{Name: o.Name, Reach: o.Reach, Goal: o.Goal, NDecls: o.NDecls, Inputs: o.Inputs}
			wg.Add(1)
			sem <- struct{}{}
			go func() {
				defer wg.Done()
				defer func() { <-sem }()
				solveVariant(ctx, vc, subs[k], workDir, idx, secs, seed, c, fmt.Sprintf(".case%d", k))
			}()
		}
		wg.Wait()
		close(doneSplit)
	}()
	wholeDone, splitDone := false, false
	for !(wholeDone && splitDone) {
		select {
		case <-doneWhole:
			wholeDone = true
			doneWhole = nil
			if whole.Status == "discharged" || whole.Status == "failed" {
				adopt(whole)
				o.Seconds = time.Since(t0).Seconds()
				return
			}
		case <-doneSplit:
			splitDone = true
			doneSplit = nil
			all := true
			for k, sub := range subs {
				if sub.Status != "discharged" {
					all = false
					if sub.Status == "failed" {
						adopt(sub)
						o.Output = fmt.Sprintf("case %d/%d (%s): %s", k+1, len(cases), strings.Join(cases[k], " "), sub.Output)
						o.Seconds = time.Since(t0).Seconds()
						return
					}
				}
			}
			if all {
				o.Status = "discharged"
				o.Solver = "split/" + subs[0].Solver
				o.Seconds = time.Since(t0).Seconds()
				o.Output = fmt.Sprintf("discharged by case split into %d path cases", len(cases))
				o.Size = subs[0].Size
				return
			}
		}
	}
	// last resort: other random seeds for the split cases that are still open
	if whole.Status != "failed" {
		allOK := true
		for k, sub := range subs {
			if sub.Status == "discharged" {
				continue
			}
			ok := false
			for _, sd := range []int{7, 42} {
				retry := &Obligation{Name: o.Name, Reach: o.Reach, Goal: o.Goal, NDecls: o.NDecls, Inputs: o.Inputs}
				solveVariant(ctx, vc, retry, workDir, idx, secs, sd, cases[k], fmt.Sprintf(".case%d.seed%d", k, sd))
				if retry.Status == "discharged" {
					subs[k] = retry
					ok = true
					break
				}
				if retry.Status == "failed" {
					subs[k] = retry
					break
				}
			}
			if !ok {
				allOK = false
				break
			}
		}
		if allOK {
			o.Status = "discharged"
			o.Solver = "split+seed/" + subs[0].Solver
			o.Seconds = time.Since(t0).Seconds()
			o.Output = fmt.Sprintf("discharged by case split into %d path cases (some with another random seed)", len(cases))
			return
		}
	}
	adopt(whole)
	for k, sub := range subs {
		if sub.Status != "discharged" {
			o.Output = fmt.Sprintf("case %d/%d (%s): %s || unsplit: %s", k+1, len(cases), strings.Join(cases[k], " "), sub.Output, whole.Output)
			if o.Status == "discharged" {
				o.Status = sub.Status
			}
			break
		}
	}
	o.Seconds = time.Since(t0).Seconds()
}

// procSem bounds the number of solver processes running at once.
var procSem = make(chan struct{}, maxInt(4, runtime.NumCPU()-2))

func maxInt(a, b int) int {
	if a > b {
		return a
	}
	return b
}

// thoroughAgreement: wait for the other solvers after the first verdict (thorough tier).
var thoroughAgreement bool

func solveVariant(parent context.Context, vc *VC, o *Obligation, workDir string, idx int, secs int, seed int, extra []string, suffix string) {
	base := filepath.Join(workDir, fmt.Sprintf("%04d_%s", idx, safeNameRe.ReplaceAllString(o.Name, "_")))
	if len(base) > 200 {
		base = base[:200]
	}
	base += suffix
	scripts := map[string]string{}
	for _, style := range []string{"z3", "cvc5"} {
		s := vc.ScriptWith(o, style, extra)
		if seed != 0 && style == "z3" {
			s = fmt.Sprintf("(set-option :smt.random_seed %d)\n(set-option :sat.random_seed %d)\n", seed, seed) + s
		}
		f := base + "." + style + ".smt2"
		os.WriteFile(f, []byte(s), 0o644)
		scripts[style] = f
		o.Size = len(s)
	}
	ctx, cancel := context.WithCancel(parent)
	defer cancel()
	type ans struct {
		solver string
		status string
		out    string
		secs   float64
	}
	ch := make(chan ans, len(solvers))
	t0 := time.Now()
	for _, sv := range solvers {
		sv := sv
		go func() {
			// at most one solver process per core: a query's time limit must not be
			// eaten by other queries of the same run competing for the processor
			select {
			case procSem <- struct{}{}:
			case <-ctx.Done():
				ch <- ans{sv.name, "unknown", "cancelled", time.Since(t0).Seconds()}
				return
			}
			defer func() { <-procSem }()
			argv := sv.argv(scripts[sv.style], secs)
			cmd := exec.CommandContext(ctx, argv[0], argv[1:]...)
			out, _ := cmd.CombinedOutput()
			first := strings.TrimSpace(strings.SplitN(string(out), "\n", 2)[0])
			st := "unknown"
			switch {
			case first == "unsat":
				st = "unsat"
			case first == "sat":
				st = "sat"
				if strings.Contains(string(out), "((goal!chk true))") {
					// the offered model satisfies the goal: not a counterexample (solver incompleteness)
					st = "unknown"
					out = []byte("unknown (sat rejected: the goal evaluates to true in the offered model)\n" + string(out))
				}
			case first == "timeout" || strings.Contains(first, "timeout") || strings.Contains(first, "interrupted"):
				st = "timeout"
			case strings.HasPrefix(first, "(error") || strings.Contains(first, "rror"):
				st = "error"
			}
			ch <- ans{sv.name, st, string(out), time.Since(t0).Seconds()}
		}()
	}
	var all []ans
	decided := false
	results := (<-chan ans)(ch)
	nWait := len(solvers)
	if thoroughAgreement && !o.MustFail && suffix == "" {
		// thorough tier: after the first verdict the other solvers get a grace
		// period; every verdict is recorded, and contradictory verdicts make the
		// obligation undecided
		var first *ans
		var grace <-chan time.Time
		n := 0
		for n < len(solvers) {
			select {
			case a := <-ch:
				n++
				all = append(all, a)
				if first == nil && (a.status == "unsat" || a.status == "sat") {
					f := a
					first = &f
					g := 3*a.secs + 2
					if g > 10 {
						g = 10
					}
					grace = time.After(time.Duration(g * float64(time.Second)))
				}
			case <-grace:
				cancel()
				n = len(solvers)
			}
		}
		var vs []string
		sat, unsat := 0, 0
		for _, a := range all {
			vs = append(vs, a.solver+":"+a.status)
			if a.status == "sat" {
				sat++
			}
			if a.status == "unsat" {
				unsat++
			}
		}
		sort.Strings(vs)
		o.Verdicts = strings.Join(vs, " ")
		if sat > 0 && unsat > 0 {
			o.Status = "unknown"
			o.Output = "solver disagreement: " + o.Verdicts
			return
		}
		// feed the verdicts to the ordinary decision logic below (through a
		// separate channel: the solver goroutines keep sending to ch)
		var feed []ans
		if first != nil {
			feed = []ans{*first}
		} else {
			feed = all
		}
		all = nil
		rch := make(chan ans, len(feed)+1)
		for _, a := range feed {
			rch <- a
		}
		results = rch
		nWait = len(feed)
	}
	for k := 0; k < nWait; k++ {
		a := <-results
		all = append(all, a)
		if a.status == "unsat" || a.status == "sat" {
			o.Solver = a.solver
			o.Seconds = a.secs
			o.Output = a.out
			if a.status == "unsat" {
				o.Status = "discharged"
			} else {
				o.Status = "failed"
				o.Model = parseValues(a.out)
				cancel()
				if m := shrinkModel(vc, o, base, secs, extra); m != nil {
					o.Model = m
				}
			}
			decided = true
			cancel()
			break
		}
	}
	if !decided {
		o.Status = "unknown"
		o.Seconds = time.Since(t0).Seconds()
		var parts []string
		for _, a := range all {
			line := strings.TrimSpace(strings.SplitN(a.out, "\n", 2)[0])
			parts = append(parts, a.solver+": "+a.status+" ("+line+")")
			if a.status == "error" {
				o.Status = "error"
			}
		}
		allTimeout := true
		for _, a := range all {
			if a.status != "timeout" {
				allTimeout = false
			}
		}
		if allTimeout {
			o.Status = "timeout"
		}
		// error only if every solver errored
		errs := 0
		for _, a := range all {
			if a.status == "error" {
				errs++
			}
		}
		if errs < len(all) && o.Status == "error" {
			o.Status = "unknown"
		}
		o.Output = strings.Join(parts, "; ")
		if o.Status == "error" {
			o.Output = all[0].out
		}
	}
}

// parseValues reads a (get-value ...) response: ((term value) ...)
func parseValues(out string) map[string]string {
	i := strings.Index(out, "\n")
	if i < 0 {
		return nil
	}
	body := strings.TrimSpace(out[i+1:])
	// the first answer is the value of the goal (model validation), the inputs follow
	for _, gv := range []string{"((goal!chk false))", "((goal!chk true))"} {
		body = strings.TrimSpace(strings.TrimPrefix(body, gv))
	}
	if !strings.HasPrefix(body, "((") {
		return nil
	}
	m := map[string]string{}
	// split top-level pairs
	depth := 0
	start := -1
	inStr := false
	for k := 1; k < len(body); k++ {
		c := body[k]
		if inStr {
			if c == '"' {
				inStr = false
			}
			continue
		}
		switch c {
		case '"':
			inStr = true
		case '(':
			if depth == 0 {
				start = k
			}
			depth++
		case ')':
			depth--
			if depth == 0 && start >= 0 {
				pair := body[start+1 : k]
				// term is a balanced prefix
				t, v := splitPair(pair)
				m[t] = v
				start = -1
			}
			if depth < 0 {
				return m
			}
		}
	}
	return m
}

func splitPair(p string) (string, string) {
	p = strings.TrimSpace(p)
	if p == "" {
		return "", ""
	}
	if p[0] != '(' {
		i := strings.IndexAny(p, " \t\n")
		if i < 0 {
			return p, ""
		}
		return p[:i], strings.TrimSpace(p[i+1:])
	}
	depth := 0
	inStr := false
	for k := 0; k < len(p); k++ {
		c := p[k]
		if inStr {
			if c == '"' {
				inStr = false
			}
			continue
		}
		switch c {
		case '"':
			inStr = true
		case '(':
			depth++
		case ')':
			depth--
			if depth == 0 {
				return p[:k+1], strings.TrimSpace(p[k+1:])
			}
		}
	}
	return p, ""
}

// shrinkModel asks for a small counterexample (short slices and strings) so that it can be replayed.
func shrinkModel(vc *VC, o *Obligation, base string, secs int, extra []string) map[string]string {
	var bounds []string
	for _, in := range o.Inputs {
		switch in.Term.Sort {
		case SSlice:
			bounds = append(bounds, fmt.Sprintf("(<= (slen %s) 4)", in.Term.S))
			if sl, isSl := in.Type.Underlying().(*types.Slice); isSl && vc.ss.SortOf(sl.Elem()) == SString {
				for _, t := range vc.inputTerms(in)[1:] {
					bounds = append(bounds, fmt.Sprintf("(<= (str.len %s) 12)", t))
				}
			}
		case SString:
			bounds = append(bounds, fmt.Sprintf("(<= (str.len %s) 16)", in.Term.S))
		case SInt:
			bounds = append(bounds, fmt.Sprintf("(and (<= (- 8) %s) (<= %s 64))", in.Term.S, in.Term.S))
		}
	}
	if len(bounds) == 0 {
		return nil
	}
	// only string-element bounds for []string inputs
	var ok []string
	for _, b := range bounds {
		ok = append(ok, b)
	}
	script := vc.ScriptWith(o, "z3", append(append([]string{}, extra...), ok...))
	f := base + ".shrink.smt2"
	os.WriteFile(f, []byte(script), 0o644)
	ctx, cancel := context.WithTimeout(context.Background(), time.Duration(secs+2)*time.Second)
	defer cancel()
	out, _ := exec.CommandContext(ctx, "z3-new", fmt.Sprintf("-T:%d", secs), f).CombinedOutput()
	if strings.HasPrefix(strings.TrimSpace(string(out)), "sat") {
		return parseValues(string(out))
	}
	return nil
}
