package main

// `govc check --property Cxx --tier quick|thorough`: the registered check.
// Exit 0: every obligation of the property discharged (known findings
// reported as KNOWN-FINDING). Exit 1: VIOLATION lines. Exit 2: the check
// itself is broken (load error, vacuity, zero obligations).

import (
	"crypto/sha1"
	"encoding/json"
	"fmt"
	"os"
	"path/filepath"
	"sort"
	"strconv"
	"strings"
	"time"
)

type KnownFinding struct {
	Property   string `json:"property"`
	Obligation string `json:"obligation"` // exact obligation name (without @retN suffix matching is by prefix)
	Class      string `json:"class,omitempty"`
	What       string `json:"what"`
	Witness    string `json:"witness,omitempty"` // name of a replay test under /verif/findings
	Status     string `json:"status,omitempty"`  // "open" or "fixed"
	Commit     string `json:"commit,omitempty"`
}

type KnownFile struct {
	Findings []KnownFinding `json:"findings"`
	Fixed    []string       `json:"fixed"`
}

func loadKnown(verif string) KnownFile {
	var k KnownFile
	b, err := os.ReadFile(filepath.Join(verif, "known_findings.json"))
	if err == nil {
		json.Unmarshal(b, &k)
	}
	return k
}

type propInfo struct {
	NotDecided []string `json:"not_decided"`
	Note       string   `json:"note"`
}

func runCheck(repo, verif, prop, tier string, secs int, keep bool, evOut string) int {
	t0 := time.Now()
	seed := 0
	if s := os.Getenv("VERIF_SEED"); s != "" {
		seed, _ = strconv.Atoi(s)
	}
	if t := os.Getenv("VERIF_TIER"); t != "" && tier == "" {
		tier = t
	}
	if tier == "" {
		tier = "quick"
	}
	if tier == "thorough" && secs < 30 {
		secs = 30
	}
	if prop == "" {
		fmt.Fprintln(os.Stderr, "check: --property required")
		return 2
	}
	evPath := filepath.Join(verif, "evidence", prop+".json")
	if evOut != "" {
		evPath = evOut
		replayDirOverride = filepath.Dir(evOut)
	}
	os.MkdirAll(filepath.Dir(evPath), 0o755)
	os.Remove(evPath)
	L, err := Load(repo, verif)
	if err != nil {
		// A contract that no longer applies to the code (drift) or code that
		// no longer type-checks: report as a violation of the check's premise.
		fmt.Printf("govc: cannot load %s: %v\n", repo, err)
		rp := writeReplay(verif, prop, "load", map[string]interface{}{"property": prop, "obligation": "load", "error": err.Error()})
		fmt.Printf("VIOLATION property=%s replay=%s no-failing-input-found\n", prop, rp)
		writeEvidence(evPath, prop, tier, seed, nil, nil, time.Since(t0).Seconds(), 1, []string{"load failed: " + err.Error()}, L)
		return 1
	}
	var names []string
	var trusted []string
	for _, n := range L.CF.Order {
		ct := L.CF.Contracts[n]
		if !ct.HasProp(prop) {
			continue
		}
		if ct.Trusted != "" {
			trusted = append(trusted, n+" ("+ct.Trusted+")")
			continue
		}
		if strings.HasPrefix(n, "iface:") || strings.HasPrefix(n, "ext:") {
			continue
		}
		names = append(names, n)
	}
	if len(names) == 0 {
		fmt.Fprintf(os.Stderr, "check: no contracts tagged %s\n", prop)
		return 2
	}
	var results []*FuncResult
	// Modular reasoning uses a callee's contract (and a lemma's statement) without looking at its
	// body, so what is claimed for this property also rests on those: the check therefore includes,
	// transitively, every contracted package function called by a function it verifies and every
	// lemma such a function uses, whether or not they carry this property's tag.
	have := map[string]bool{}
	for _, n := range names {
		have[n] = true
	}
	closure := []string{}
	for i := 0; i < len(names); i++ {
		n := names[i]
		r := VerifyFunction(L, n, L.CF.Contracts[n], prop)
		results = append(results, r)
		var deps []string
		deps = append(deps, r.Callees...)
		if ct := L.CF.Contracts[n]; ct != nil {
			for _, u := range ct.Uses {
				if k := strings.Index(u, "/"); k > 0 {
					u = u[k+1:]
				}
				deps = append(deps, "lemma:"+u)
			}
		}
		for _, d := range deps {
			ct := L.CF.Contracts[d]
			if ct == nil || have[d] || strings.HasPrefix(d, "iface:") || strings.HasPrefix(d, "ext:") {
				continue
			}
			have[d] = true
			if ct.Trusted != "" {
				trusted = append(trusted, d+" ("+ct.Trusted+")")
				continue
			}
			if ct.Inline {
				continue
			}
			names = append(names, d)
			closure = append(closure, d)
		}
	}
	if len(closure) > 0 {
		fmt.Printf("NOTE %d function(s)/lemma(s) included because verified functions rely on their contracts: %s\n", len(closure), strings.Join(closure, ", "))
	}
	// Trusted contracts of package functions (dependency-shaped code that is
	// outside the subset) get a bounded stand-in: the contract's Go rendering is
	// evaluated on an exhaustive small-scope enumeration of inputs. This is
	// labelled bounded in the evidence and never counted as proved.
	boundedRuns := []string{}
	boundedViolations := 0
	for _, n := range L.CF.Order {
		ct := L.CF.Contracts[n]
		if !ct.HasProp(prop) || ct.Trusted == "" || strings.HasPrefix(n, "iface:") || strings.HasPrefix(n, "ext:") {
			continue
		}
		if _, ok := ct.Opts["bounded"]; !ok {
			continue
		}
		fn := L.Func(n)
		if fn == nil {
			continue
		}
		src, why := harnessFor(L, fn, ct, contractPools(ct), 2000000)
		if src == "" {
			boundedRuns = append(boundedRuns, n+": no bounded stand-in ("+why+")")
			continue
		}
		pass, out := runOverlayTest(L, verif, src, false)
		line := ""
		for _, l := range strings.Split(out, "\n") {
			if strings.HasPrefix(l, "VERIF-REPLAY") {
				line = l
			}
		}
		if line == "" {
			line = "did not run: " + firstLines(out, 6)
		}
		boundedRuns = append(boundedRuns, fmt.Sprintf("%s: bounded stand-in over the pools of its contract: %s", n, line))
		if !pass && strings.Contains(out, "VERIF-FAIL") {
			boundedViolations++
			rp := writeReplay(verif, prop, n+"#bounded", map[string]interface{}{"property": prop, "obligation": n + "#bounded", "kind": "bounded stand-in of a trusted contract",
				"replay_output": trimOutput(out)})
			fmt.Printf("FAILED obligation=%s#bounded: the assumed contract does not hold on an enumerated input\n", n)
			fmt.Printf("VIOLATION property=%s replay=%s\n", prop, rp)
		}
	}
	// Known findings: replay each witness on the real code first. While the
	// witness still fails, the finding is reported and its obligation is not
	// sent to the solvers (it cannot be discharged); once the witness passes,
	// the obligation is decided like any other.
	known := loadKnown(verif)
	witnessFails := map[string]bool{}
	var knownReported []string
	for i := range known.Findings {
		f := &known.Findings[i]
		if f.Property != prop || f.Status == "fixed" || f.Witness == "" {
			continue
		}
		fails, out := runWitness(L, verif, f.Witness)
		if fails {
			witnessFails[f.Obligation] = true
			msg := fmt.Sprintf("KNOWN-FINDING: property=%s %s [%s; witness %s still fails]", prop, f.What, f.Obligation, f.Witness)
			knownReported = append(knownReported, msg)
			fmt.Println(msg)
		} else {
			fmt.Printf("NOTE known finding %s: witness %s no longer fails (%s); its obligation is checked normally\n", f.Obligation, f.Witness, firstLines(out, 1))
		}
	}
	skipped := 0
	for _, r := range results {
		var keepO []*Obligation
		for _, o := range r.Obligations {
			base := o.Name
			if i := strings.LastIndex(base, "@"); i >= 0 {
				base = base[:i]
			}
			if witnessFails[o.Name] || witnessFails[base] {
				skipped++
				continue
			}
			if len(o.ClauseProps) > 0 {
				in := false
				for _, q := range o.ClauseProps {
					if q == prop {
						in = true
					}
				}
				if !in {
					continue
				}
			}
			keepO = append(keepO, o)
		}
		r.Obligations = keepO
	}
	work := filepath.Join(verif, ".work", fmt.Sprintf("check-%s-%d", prop, os.Getpid()))
	// thorough tier: longer limit, and every obligation is put to all three
	// solvers (grace period after the first verdict); contradictory verdicts
	// leave the obligation undecided
	thoroughAgreement = tier == "thorough"
	Discharge(results, work, secs, 5, seed)
	violations := boundedViolations
	broken := 0
	total, discharged := 0, 0
	_ = skipped
	boundedNotes = boundedRuns
	for _, n := range names {
		for _, d := range L.CF.Contracts[n].Drift {
			fmt.Printf("DRIFT function=%s: %s (the clause no longer applies to the code and is treated as false)\n", n, d)
		}
	}
	for _, r := range results {
		if r.Error != "" {
			// function left the verified subset or the contract drifted
			fmt.Printf("UNDECIDED function=%s reason=%s\n", r.Func, r.Error)
			rp := writeReplay(verif, prop, r.Func+"#subset", map[string]interface{}{"property": prop, "obligation": r.Func + "#subset", "error": r.Error})
			fmt.Printf("VIOLATION property=%s replay=%s no-failing-input-found\n", prop, rp)
			violations++
			total++
			continue
		}
		// vacuity: a contradictory precondition, or a function none of whose
		// exits is reachable, means the obligations say nothing
		nReach, nDead := 0, 0
		for _, o := range r.Obligations {
			if !o.MustFail {
				continue
			}
			if strings.Contains(o.Name, "#vacuity:pre-sat") {
				if o.Status == "discharged" {
					fmt.Printf("VACUOUS obligation=%s: the precondition is contradictory\n", o.Name)
					broken++
				}
				continue
			}
			nReach++
			if o.Status == "discharged" {
				nDead++
				fmt.Printf("NOTE unreachable exit %s at %s\n", o.Name, o.Pos)
			}
		}
		if nReach > 0 && nDead == nReach {
			fmt.Printf("VACUOUS function=%s: no exit is reachable under the contract\n", r.Func)
			broken++
		}
		for _, o := range r.Obligations {
			if o.MustFail {
				continue
			}
			total++
			if o.Status == "discharged" {
				discharged++
				continue
			}
			// failed / unknown / timeout
			if kf := matchKnown(known, prop, o.Name); kf != nil {
				msg := fmt.Sprintf("KNOWN-FINDING: property=%s %s [%s]", prop, kf.What, o.Name)
				knownReported = append(knownReported, msg)
				fmt.Println(msg)
				discharged++ // accounted for by the committed finding
				continue
			}
			violations++
			rec := map[string]interface{}{
				"property": prop, "obligation": o.Name, "kind": o.Kind, "position": o.Pos, "clause": o.Desc,
				"status": o.Status, "solver": o.Solver, "solver_output": firstLines(o.Output, 20), "model": o.Model,
			}
			suffix := " no-failing-input-found"
			lastReplaySrc = ""
			if o.Model != nil {
				if ok, out := replayModel(L, verif, r, o); ok {
					rec["replay_output"] = out
					rec["replay_test_go"] = lastReplaySrc
					suffix = ""
				} else {
					rec["replay_output"] = out
				}
			}
			if suffix != "" {
				lastReplaySrc = ""
				if ok, out := boundedSearch(L, verif, r, o); ok {
					rec["bounded_search_output"] = out
					rec["replay_test_go"] = lastReplaySrc
					suffix = ""
				} else if out != "" {
					rec["bounded_search_output"] = out
				}
			}
			if suffix == "" {
				rec["how_to_replay"] = "./check --replay <this file>: the in-package test in replay_test_go is injected into /repo with `go test -overlay` (nothing is written to /repo) together with the spec oracle; it calls the function under contract on the failing input and evaluates the violated clause"
			}
			rp := writeReplay(verif, prop, o.Name, rec)
			fmt.Printf("FAILED obligation=%s status=%s at %s: %s\n", o.Name, o.Status, o.Pos, o.Desc)
			fmt.Printf("VIOLATION property=%s replay=%s%s\n", prop, rp, suffix)
		}
	}
	if !keep {
		os.RemoveAll(work)
	}
	wall := time.Since(t0).Seconds()
	writeEvidence(evPath, prop, tier, seed, results, trusted, wall, violations, knownReported, L)
	fmt.Printf("govc: property %s: %d obligations, %d discharged, %d violations, %.1fs\n", prop, total, discharged, violations, wall)
	if total == 0 {
		fmt.Println("govc: zero obligations — check is vacuous")
		return 2
	}
	if violations > 0 {
		return 1
	}
	if broken > 0 {
		return 2
	}
	return 0
}

// runWitness runs /verif/findings/<name> (a Go test file) against the real
// package through an overlay; it reports whether the test fails.
func runWitness(L *Loaded, verif, name string) (bool, string) {
	b, err := os.ReadFile(filepath.Join(verif, "findings", name))
	if err != nil {
		return false, "witness file missing: " + err.Error()
	}
	src := string(b)
	// the witness's test function becomes the replay entry point
	i := strings.Index(src, "func Test")
	if i < 0 {
		return false, "witness has no test function"
	}
	j := strings.Index(src[i:], "(")
	fn := src[i+5 : i+j]
	src += "\nfunc TestVerifReplay(t *testing.T) { " + fn + "(t) }\n"
	race := strings.Contains(src, "run with -race")
	pass, out := runOverlayTest(L, verif, src, race)
	return !pass, trimOutput(out)
}

func matchKnown(k KnownFile, prop, obl string) *KnownFinding {
	base := obl
	if i := strings.LastIndex(base, "@"); i >= 0 {
		base = base[:i]
	}
	for i := range k.Findings {
		f := &k.Findings[i]
		if f.Property != prop || f.Status == "fixed" {
			continue
		}
		if f.Obligation == obl || f.Obligation == base {
			return f
		}
	}
	return nil
}

var replayDirOverride string
var boundedNotes []string

func writeReplay(verif, prop, obl string, rec map[string]interface{}) string {
	dir := filepath.Join(verif, "replays")
	if replayDirOverride != "" {
		dir = replayDirOverride
	}
	os.MkdirAll(dir, 0o755)
	h := sha1.Sum([]byte(obl))
	name := fmt.Sprintf("%s-%s-%x.json", prop, safeNameRe.ReplaceAllString(obl, "_"), h[:4])
	if len(name) > 150 {
		name = fmt.Sprintf("%s-%x.json", prop, h[:8])
	}
	p := filepath.Join(dir, name)
	b, _ := json.MarshalIndent(rec, "", " ")
	os.WriteFile(p, b, 0o644)
	return p
}

func writeEvidence(path, prop, tier string, seed int, results []*FuncResult, trusted []string, wall float64, violations int, known []string, L *Loaded) {
	type perObl struct {
		Name     string  `json:"name"`
		Kind     string  `json:"kind"`
		Status   string  `json:"status"`
		Solver   string  `json:"solver"`
		Seconds  float64 `json:"seconds"`
		Size     int     `json:"smt_bytes"`
		Verdicts string  `json:"verdicts,omitempty"`
	}
	agreed := 0
	var per []perObl
	total, disch := 0, 0
	solverSecs := 0.0
	bySolver := map[string]int{}
	assum := map[string]bool{}
	var funcs, inlined, errors []string
	inl := map[string]bool{}
	var samples []interface{}
	canaries := 0
	for _, r := range results {
		funcs = append(funcs, r.Func)
		if r.Error != "" {
			errors = append(errors, r.Func+": "+r.Error)
		}
		for _, a := range r.Assumptions {
			assum[a] = true
		}
		for _, i := range r.Inlined {
			inl[i] = true
		}
		for _, o := range r.Obligations {
			if o.MustFail {
				if o.Status != "discharged" {
					canaries++
				}
				continue
			}
			total++
			if o.Status == "discharged" {
				disch++
				bySolver[o.Solver]++
			}
			solverSecs += o.Seconds
			per = append(per, perObl{o.Name, o.Kind, o.Status, o.Solver, round3(o.Seconds), o.Size, o.Verdicts})
			if strings.Count(o.Verdicts, ":unsat") >= 2 {
				agreed++
			}
			if len(samples) < 3 && o.Solver != "trivial" && o.Kind != "safe" {
				samples = append(samples, map[string]interface{}{
					"obligation": o.Name, "clause": o.Desc, "position": o.Pos, "status": o.Status, "solver": o.Solver,
					"goal_smt": truncate(o.Goal.S, 400), "path_condition_smt": truncate(o.Reach.S, 200),
				})
			}
		}
	}
	if len(samples) == 0 {
		for _, r := range results {
			for _, o := range r.Obligations {
				if len(samples) < 2 && !o.MustFail {
					samples = append(samples, map[string]interface{}{"obligation": o.Name, "clause": o.Desc, "status": o.Status})
				}
			}
		}
	}
	inlined = sortedKeys(inl)
	tb := []string{
		"govc itself (SSA -> SMT translation, DESIGN.md §3) and the x/tools v0.29.0 SSA builder",
		"solvers: z3 4.8.12, z3-new 5.1.0, cvc5 1.0.3 (an obligation counts as discharged on the first unsat)",
		"A-INT: machine integers treated as mathematical integers",
	}
	tb = append(tb, sortedKeys(assum)...)
	for _, t := range trusted {
		tb = append(tb, "trusted contract: "+t)
	}
	level := "proof"
	if total == 0 || disch < total {
		level = "other"
	}
	cov := map[string]interface{}{
		"obligations":                       total,
		"discharged":                        disch,
		"checker_cmd":                       fmt.Sprintf("/verif/bin/govc check --property %s --tier %s  (per obligation: z3-new -T:N | z3 -T:N | cvc5 --strings-exp --tlimit=N000, raced)", prop, tier),
		"trusted_base":                      tb,
		"samples":                           samples,
		"functions_under_contract":          funcs,
		"functions_inlined":                 inlined,
		"per_obligation":                    per,
		"solver_seconds":                    round3(solverSecs),
		"discharged_by_solver":              bySolver,
		"vacuity_canaries_ok":               canaries,
		"known_findings_reported":           known,
		"outside_subset":                    errors,
		"bounded_stand_ins":                 boundedNotes,
		"explanation":                       "every obligation is generated from the SSA of /repo's working tree on this run; see DESIGN.md §3.8 for what the translation abstracts",
	}
	if tier == "thorough" {
		cov["discharged_by_two_or_more_solvers"] = agreed
		cov["thorough_tier"] = "limit 60 s per obligation; after the first verdict the other solvers get a grace period (3x + 2 s, at most 10 s) and every verdict is recorded per obligation; contradictory verdicts leave the obligation undecided"
	}
	if info := loadPropInfo(prop); info != nil {
		cov["not_decided"] = info.NotDecided
	}
	ev := map[string]interface{}{
		"property_id": prop, "tier": tier, "seed": seed, "level": level, "coverage": cov,
		"assumptions": tb, "wall_s": round3(wall), "violations": violations,
	}
	b, _ := json.MarshalIndent(ev, "", " ")
	os.WriteFile(path, b, 0o644)
}

func loadPropInfo(prop string) *propInfo {
	b, err := os.ReadFile("/verif/propinfo.json")
	if err != nil {
		return nil
	}
	var m map[string]*propInfo
	if json.Unmarshal(b, &m) != nil {
		return nil
	}
	return m[prop]
}

func round3(f float64) float64 { return float64(int(f*1000+0.5)) / 1000 }

func truncate(s string, n int) string {
	if len(s) > n {
		return s[:n] + "…"
	}
	return s
}

var _ = sort.Strings
