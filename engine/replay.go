package main

// Replay of counterexamples and bounded search on the real code: the contract
// clauses are real Go functions (the generated clause file), injected together
// with a generated test by `go test -overlay`; /repo is not written to.

import (
	"encoding/json"
	"fmt"
	"go/token"
	"go/types"
	"os"
	"os/exec"
	"path/filepath"
	"strconv"
	"strings"

	"golang.org/x/tools/go/ssa"
)

type harnessParam struct {
	name  string
	typ   string // "string" "bool" "int" "[]string"
	pool  []string // Go literals
}

func goTypeOf(t types.Type) string {
	switch u := t.Underlying().(type) {
	case *types.Basic:
		switch {
		case u.Info()&types.IsString != 0:
			return "string"
		case u.Info()&types.IsBoolean != 0:
			return "bool"
		case u.Kind() == types.Int:
			return "int"
		}
	case *types.Slice:
		if b, ok := u.Elem().Underlying().(*types.Basic); ok && b.Info()&types.IsString != 0 {
			if _, named := t.(*types.Named); !named {
				return "[]string"
			}
		}
	}
	return ""
}

var defaultStringPool = []string{`""`, `"a"`, `"b"`, `"/"`, `"a/b"`, `"{v}"`, `"*/*"`}

// harnessFor builds the test source. pools maps parameter name -> Go literals.
func harnessFor(L *Loaded, fn *ssa.Function, ct *Contract, pools map[string][]string, maxTuples int) (string, string) {
	sig := fn.Signature
	var params []harnessParam
	var recvExpr string
	fparams := fn.Params
	if sig.Recv() != nil {
		rt := sig.Recv().Type()
		if pt, ok := rt.(*types.Pointer); ok {
			recvExpr = "new(" + shortTypeName(pt.Elem()) + ")"
		} else {
			recvExpr = "(" + shortTypeName(rt) + "{})"
			if _, ok := rt.Underlying().(*types.Struct); !ok {
				recvExpr = shortTypeName(rt) + "(nil)"
			}
		}
		fparams = fparams[1:]
	}
	for _, p := range fparams {
		gt := goTypeOf(p.Type())
		if gt == "" {
			return "", "parameter " + p.Name() + " of type " + p.Type().String() + " is not enumerable"
		}
		hp := harnessParam{name: p.Name(), typ: gt}
		if pl, ok := pools[p.Name()]; ok {
			hp.pool = pl
		} else {
			switch gt {
			case "string":
				hp.pool = defaultStringPool
			case "bool":
				hp.pool = []string{"false", "true"}
			case "int":
				hp.pool = []string{"-1", "0", "1", "2", "3"}
			case "[]string":
				hp.pool = seqPool([]string{`"a"`, `"b"`, `"{v}"`}, 3)
			}
		}
		params = append(params, hp)
	}
	var b strings.Builder
	b.WriteString("package restful\n\nimport (\n\t\"fmt\"\n\t\"testing\"\n)\n\n")
	// call wrapper
	nres := sig.Results().Len()
	b.WriteString("func verifReplayCall(")
	for i, p := range params {
		if i > 0 {
			b.WriteString(", ")
		}
		fmt.Fprintf(&b, "a%d %s", i, p.typ)
	}
	b.WriteString(") (")
	for k := 0; k < nres; k++ {
		fmt.Fprintf(&b, "r%d %s, ", k, types.TypeString(sig.Results().At(k).Type(), func(p *types.Package) string {
			if p.Path() == pkgPath {
				return ""
			}
			return p.Name()
		}))
	}
	b.WriteString("panicked interface{}) {\n\tdefer func() { panicked = recover() }()\n\t")
	if nres > 0 {
		for k := 0; k < nres; k++ {
			if k > 0 {
				b.WriteString(", ")
			}
			fmt.Fprintf(&b, "r%d", k)
		}
		b.WriteString(" = ")
	}
	if recvExpr != "" {
		fmt.Fprintf(&b, "%s.%s(", recvExpr, fn.Name())
	} else {
		fmt.Fprintf(&b, "%s(", fn.Name())
	}
	for i := range params {
		if i > 0 {
			b.WriteString(", ")
		}
		fmt.Fprintf(&b, "a%d", i)
	}
	b.WriteString(")\n\treturn\n}\n\n")
	// argument expression for a clause
	argFor := func(cl *Clause) (string, bool) {
		var as []string
		for _, cp := range cl.Params {
			switch cp.Kind {
			case "result":
				as = append(as, fmt.Sprintf("r%d", cp.Idx))
			case "var":
				found := false
				for i, p := range fparams {
					if p.Pos() == token.Pos(cp.Pos) {
						as = append(as, fmt.Sprintf("a%d", i))
						found = true
					}
				}
				if !found {
					for k := 0; k < nres; k++ {
						if sig.Results().At(k).Pos() == token.Pos(cp.Pos) {
							as = append(as, fmt.Sprintf("r%d", k))
							found = true
						}
					}
				}
				if !found {
					return "", false
				}
			default:
				return "", false
			}
		}
		return strings.Join(as, ", "), true
	}
	b.WriteString("func TestVerifReplay(t *testing.T) {\n\tevaluated, failures := 0, 0\n")
	for i, p := range params {
		fmt.Fprintf(&b, "\tpool%d := []%s{%s}\n", i, p.typ, strings.Join(p.pool, ", "))
	}
	for i := range params {
		fmt.Fprintf(&b, "\tfor _, a%d := range pool%d {\n", i, i)
	}
	for _, cl := range ct.Requires {
		if as, ok := argFor(cl); ok {
			fmt.Fprintf(&b, "\tif !%s(%s) {\n\t\tcontinue\n\t}\n", cl.GoName, as)
		}
	}
	fmt.Fprintf(&b, "\tif evaluated >= %d {\n\t\tcontinue\n\t}\n\tevaluated++\n", maxTuples)
	b.WriteString("\tinput := fmt.Sprintf(\"")
	for i, p := range params {
		if i > 0 {
			b.WriteString(" ")
		}
		fmt.Fprintf(&b, "%s=%%#v", p.name)
	}
	b.WriteString("\"")
	for i := range params {
		fmt.Fprintf(&b, ", a%d", i)
	}
	b.WriteString(")\n\t")
	for k := 0; k < nres; k++ {
		fmt.Fprintf(&b, "r%d, ", k)
	}
	b.WriteString("panicked := verifReplayCall(")
	for i := range params {
		if i > 0 {
			b.WriteString(", ")
		}
		fmt.Fprintf(&b, "a%d", i)
	}
	b.WriteString(")\n")
	for k := 0; k < nres; k++ {
		fmt.Fprintf(&b, "\t_ = r%d\n", k)
	}
	b.WriteString("\tif panicked != nil {\n\t\tfailures++\n\t\tif failures <= 5 {\n\t\t\tfmt.Printf(\"VERIF-FAIL clause=nopanic input: %s panic: %v\\n\", input, panicked)\n\t\t}\n\t\tcontinue\n\t}\n")
	for _, cl := range ct.Ensures {
		if cl.HasOld {
			continue
		}
		if as, ok := argFor(cl); ok {
			fmt.Fprintf(&b, "\tif !%s(%s) {\n\t\tfailures++\n\t\tif failures <= 5 {\n\t\t\tfmt.Printf(\"VERIF-FAIL clause=%s input: %%s results:", cl.GoName, as, cl.Label)
			for k := 0; k < nres; k++ {
				b.WriteString(" %#v")
			}
			b.WriteString("\\n\", input")
			for k := 0; k < nres; k++ {
				fmt.Fprintf(&b, ", r%d", k)
			}
			b.WriteString(")\n\t\t}\n\t}\n")
		}
	}
	for range params {
		b.WriteString("\t}\n")
	}
	b.WriteString("\tfmt.Printf(\"VERIF-REPLAY evaluated=%d failures=%d\\n\", evaluated, failures)\n\tif failures > 0 {\n\t\tt.Fail()\n\t}\n}\n")
	return b.String(), ""
}

func seqPool(tokens []string, maxLen int) []string {
	out := []string{"nil"}
	var rec func(prefix []string)
	rec = func(prefix []string) {
		if len(prefix) > 0 {
			out = append(out, "{"+strings.Join(prefix, ", ")+"}")
		}
		if len(prefix) == maxLen {
			return
		}
		for _, t := range tokens {
			rec(append(append([]string{}, prefix...), t))
		}
	}
	rec(nil)
	return out
}

// runOverlayTest runs the generated test against the real package.
// lastReplaySrc: source of the most recent generated replay test (stored in the replay file).
var lastReplaySrc string

func runOverlayTest(L *Loaded, verif string, testSrc string, race bool) (bool, string) {
	lastReplaySrc = testSrc
	dir := filepath.Join(verif, ".work", fmt.Sprintf("replay-%d-%d", os.Getpid(), len(testSrc)))
	os.MkdirAll(dir, 0o755)
	defer os.RemoveAll(dir)
	ov := map[string]string{}
	for name := range L.SpecFiles {
		base := filepath.Base(name) // zz_verif_<sub>_<file>
		rest := strings.TrimPrefix(base, "zz_verif_")
		i := strings.Index(rest, "_")
		ov[name] = filepath.Join(verif, rest[:i], rest[i+1:])
	}
	cf := filepath.Join(dir, "clauses.go")
	os.WriteFile(cf, []byte(L.GenSrc), 0o644)
	ov[filepath.Join(L.RepoDir, "zz_verif_clauses.go")] = cf
	tf := filepath.Join(dir, "replay_test.go")
	os.WriteFile(tf, []byte(testSrc), 0o644)
	ov[filepath.Join(L.RepoDir, "zz_verif_replay_test.go")] = tf
	ob, _ := json.Marshal(map[string]interface{}{"Replace": ov})
	of := filepath.Join(dir, "overlay.json")
	os.WriteFile(of, ob, 0o644)
	args := []string{"test", "-v", "-overlay", of, "-vet=off", "-count=1", "-timeout", "60s", "-run", "^TestVerifReplay$"}
	if race {
		args = append(args, "-race")
	}
	args = append(args, ".")
	cmd := exec.Command("go", args...)
	cmd.Dir = L.RepoDir
	cmd.Env = append(os.Environ(), "GOFLAGS=-mod=mod", "GOPROXY=off", "GOSUMDB=off", "GOTOOLCHAIN=local")
	out, err := cmd.CombinedOutput()
	return err == nil, string(out)
}

// replayModel re-executes a solver model on the real function.
func replayModel(L *Loaded, verif string, r *FuncResult, o *Obligation) (bool, string) {
	fn := L.Func(r.Func)
	ct := L.CF.Contracts[r.Func]
	if fn == nil || ct == nil {
		return false, "no function/contract"
	}
	pools := map[string][]string{}
	for _, in := range o.Inputs {
		lit, ok := modelLiteral(r.VC, in, o.Model)
		if !ok {
			return false, "model value of " + in.Name + " cannot be rendered as a Go literal"
		}
		pools[in.Name] = []string{lit}
	}
	src, why := harnessFor(L, fn, ct, pools, 1)
	if src == "" {
		return false, "no replay harness: " + why
	}
	pass, out := runOverlayTest(L, verif, src, false)
	if !pass && strings.Contains(out, "VERIF-FAIL") {
		return true, trimOutput(out)
	}
	return false, "model did not reproduce on the real code: " + trimOutput(out)
}

// boundedSearch enumerates small inputs looking for a violation of the contract.
func boundedSearch(L *Loaded, verif string, r *FuncResult, o *Obligation) (bool, string) {
	fn := L.Func(r.Func)
	ct := L.CF.Contracts[r.Func]
	if fn == nil || ct == nil {
		return false, ""
	}
	pools := contractPools(ct)
	src, why := harnessFor(L, fn, ct, pools, 2000000)
	if src == "" {
		return false, "no bounded stand-in: " + why
	}
	pass, out := runOverlayTest(L, verif, src, false)
	if !pass && strings.Contains(out, "VERIF-FAIL") {
		return true, trimOutput(out)
	}
	return false, "bounded search found no failing input: " + trimOutput(out)
}

// contractPools reads `opt pool.<param> <json list of strings>` and
// `opt tokens.<param> <json list>` (token pool for []string sequences, with `opt maxlen.<param> n`).
func contractPools(ct *Contract) map[string][]string {
	pools := map[string][]string{}
	for k, v := range ct.Opts {
		switch {
		case strings.HasPrefix(k, "pool."):
			var items []interface{}
			if json.Unmarshal([]byte(v), &items) == nil {
				var lits []string
				for _, it := range items {
					switch x := it.(type) {
					case string:
						lits = append(lits, strconv.Quote(x))
					case float64:
						lits = append(lits, strconv.Itoa(int(x)))
					case bool:
						lits = append(lits, strconv.FormatBool(x))
					}
				}
				pools[k[5:]] = lits
			}
		case strings.HasPrefix(k, "tokens."):
			var items []string
			if json.Unmarshal([]byte(v), &items) == nil {
				var lits []string
				for _, it := range items {
					lits = append(lits, strconv.Quote(it))
				}
				n := 3
				if m, ok := ct.Opts["maxlen."+k[7:]]; ok {
					n, _ = strconv.Atoi(m)
				}
				pools[k[7:]] = seqPool(lits, n)
			}
		}
	}
	return pools
}

func trimOutput(s string) string {
	ls := strings.Split(strings.TrimSpace(s), "\n")
	if len(ls) > 12 {
		ls = ls[:12]
	}
	return strings.Join(ls, "\n")
}

// modelLiteral renders the model value of an input as a Go literal.
func modelLiteral(vc *VC, in InputVar, model map[string]string) (string, bool) {
	get := func(t string) (string, bool) {
		v, ok := model[t]
		return v, ok
	}
	switch in.Term.Sort {
	case SString:
		v, ok := get(in.Term.S)
		if !ok {
			return "", false
		}
		return smtStringToGo(v)
	case SBool:
		v, ok := get(in.Term.S)
		return v, ok && (v == "true" || v == "false")
	case SInt:
		v, ok := get(in.Term.S)
		if !ok {
			return "", false
		}
		return smtIntToGo(v)
	case SSlice:
		terms := vc.inputTerms(in)
		if len(terms) == 0 {
			return "", false
		}
		lv, ok := get(terms[0])
		if !ok {
			return "", false
		}
		ls, ok := smtIntToGo(lv)
		if !ok {
			return "", false
		}
		n, _ := strconv.Atoi(ls)
		if n < 0 || n > len(terms)-1 {
			return "", false
		}
		if n == 0 {
			return "nil", true
		}
		var elems []string
		for k := 0; k < n; k++ {
			ev, ok := get(terms[1+k])
			if !ok {
				return "", false
			}
			g, ok := smtStringToGo(ev)
			if !ok {
				return "", false
			}
			elems = append(elems, g)
		}
		return "{" + strings.Join(elems, ", ") + "}", true
	}
	return "", false
}

func smtIntToGo(v string) (string, bool) {
	v = strings.TrimSpace(v)
	if strings.HasPrefix(v, "(- ") {
		return "-" + strings.TrimSuffix(v[3:], ")"), true
	}
	if _, err := strconv.Atoi(v); err != nil {
		return "", false
	}
	return v, true
}

func smtStringToGo(v string) (string, bool) {
	v = strings.TrimSpace(v)
	if len(v) < 2 || v[0] != '"' || v[len(v)-1] != '"' {
		return "", false
	}
	body := v[1 : len(v)-1]
	var out []byte
	for i := 0; i < len(body); i++ {
		c := body[i]
		switch {
		case c == '"' && i+1 < len(body) && body[i+1] == '"':
			out = append(out, '"')
			i++
		case c == '\\' && i+2 < len(body) && body[i+1] == 'u' && body[i+2] == '{':
			j := strings.IndexByte(body[i:], '}')
			if j < 0 {
				return "", false
			}
			n, err := strconv.ParseUint(body[i+3:i+j], 16, 32)
			if err != nil || n > 255 {
				return "", false
			}
			out = append(out, byte(n))
			i += j
		case c == '\\' && i+1 < len(body) && body[i+1] == 'x':
			if i+3 >= len(body) {
				return "", false
			}
			n, err := strconv.ParseUint(body[i+2:i+4], 16, 8)
			if err != nil {
				return "", false
			}
			out = append(out, byte(n))
			i += 3
		default:
			out = append(out, c)
		}
	}
	return strconv.Quote(string(out)), true
}
