package main

// Terms, sorts and the mapping from Go types to SMT sorts.
//
// Memory model (DESIGN §3.2): a pointer is (arr, idx); a slice is (arr, off,
// len, cap); there is one heap per Go element type T, H_<T> : Int -> Int -> T.
// Struct values are SMT datatypes. Interfaces are (tag, box), function values
// are (code, env). Maps and channels are Int references into ghost heaps.

import (
	"fmt"
	"go/types"
	"sort"
	"strings"
)

type Sort string

const (
	SInt    Sort = "Int"
	SBool   Sort = "Bool"
	SString Sort = "String"
	SReal   Sort = "Real"
	SPtr    Sort = "Ptr"
	SSlice  Sort = "Slice"
	SIface  Sort = "Iface"
	SFunc   Sort = "Func"
	SOpaque Sort = "Opaque"
	STrace  Sort = "Trace"
)

// Term is an SMT-LIB term (text) with its sort.
type Term struct {
	S     string
	Sort  Sort
	Parts []Term // components of a mkptr / mkslice constructor application
}

func (t Term) String() string { return t.S }

func T(sort Sort, format string, args ...interface{}) Term {
	return Term{S: fmt.Sprintf(format, args...), Sort: sort}
}

func IntLit(n int64) Term {
	if n < 0 {
		return Term{S: fmt.Sprintf("(- %d)", -n), Sort: SInt}
	}
	return Term{S: fmt.Sprintf("%d", n), Sort: SInt}
}
func BoolLit(b bool) Term {
	if b {
		return Term{S: "true", Sort: SBool}
	}
	return Term{S: "false", Sort: SBool}
}

var True = BoolLit(true)
var False = BoolLit(false)

func StrLit(s string) Term {
	var b strings.Builder
	b.WriteByte('"')
	for i := 0; i < len(s); i++ {
		c := s[i]
		switch {
		case c == '"':
			b.WriteString(`""`)
		case c == '\\':
			b.WriteString(`\u{5c}`)
		case c >= 0x20 && c < 0x7f:
			b.WriteByte(c)
		default:
			fmt.Fprintf(&b, `\u{%x}`, c)
		}
	}
	b.WriteByte('"')
	return Term{S: b.String(), Sort: SString}
}

func And(ts ...Term) Term {
	var parts []string
	for _, t := range ts {
		if t.S == "true" {
			continue
		}
		if t.S == "false" {
			return False
		}
		parts = append(parts, t.S)
	}
	switch len(parts) {
	case 0:
		return True
	case 1:
		return Term{S: parts[0], Sort: SBool}
	}
	return Term{S: "(and " + strings.Join(parts, " ") + ")", Sort: SBool}
}
func Or(ts ...Term) Term {
	var parts []string
	for _, t := range ts {
		if t.S == "false" {
			continue
		}
		if t.S == "true" {
			return True
		}
		parts = append(parts, t.S)
	}
	switch len(parts) {
	case 0:
		return False
	case 1:
		return Term{S: parts[0], Sort: SBool}
	}
	return Term{S: "(or " + strings.Join(parts, " ") + ")", Sort: SBool}
}
func Not(t Term) Term {
	if t.S == "true" {
		return False
	}
	if t.S == "false" {
		return True
	}
	if strings.HasPrefix(t.S, "(not ") {
		return Term{S: t.S[5 : len(t.S)-1], Sort: SBool}
	}
	return Term{S: "(not " + t.S + ")", Sort: SBool}
}
func Implies(a, b Term) Term {
	if a.S == "true" {
		return b
	}
	if a.S == "false" || b.S == "true" {
		return True
	}
	return Term{S: "(=> " + a.S + " " + b.S + ")", Sort: SBool}
}
func Eq(a, b Term) Term {
	if a.S == b.S {
		return True
	}
	return Term{S: "(= " + a.S + " " + b.S + ")", Sort: SBool}
}
func Ite(c, a, b Term) Term {
	if c.S == "true" {
		return a
	}
	if c.S == "false" {
		return b
	}
	if a.S == b.S {
		return a
	}
	if a.Sort == SBool {
		switch {
		case b.S == "false":
			return And(c, a)
		case a.S == "true":
			return Or(c, b)
		case b.S == "true":
			return Implies(c, a)
		case a.S == "false":
			return And(Not(c), b)
		}
	}
	return Term{S: "(ite " + c.S + " " + a.S + " " + b.S + ")", Sort: a.Sort}
}
func App(sort Sort, f string, args ...Term) Term {
	if len(args) == 0 {
		return Term{S: f, Sort: sort}
	}
	var b strings.Builder
	b.WriteByte('(')
	b.WriteString(f)
	for _, a := range args {
		b.WriteByte(' ')
		b.WriteString(a.S)
	}
	b.WriteByte(')')
	return Term{S: b.String(), Sort: sort}
}
func Add(a, b Term) Term { return App(SInt, "+", a, b) }
func Sub(a, b Term) Term { return App(SInt, "-", a, b) }
func Le(a, b Term) Term  { return App(SBool, "<=", a, b) }
func Lt(a, b Term) Term  { return App(SBool, "<", a, b) }

// pointer / slice helpers
var NilPtr = Term{S: "(mkptr 0 0)", Sort: SPtr, Parts: []Term{{S: "0", Sort: SInt}, {S: "0", Sort: SInt}}}

func MkPtr(arr, idx Term) Term {
	t := App(SPtr, "mkptr", arr, idx)
	t.Parts = []Term{arr, idx}
	return t
}
func part(t Term, n, i int, sel string) Term {
	if len(t.Parts) == n {
		return t.Parts[i]
	}
	return App(SInt, sel, t)
}
func PArr(p Term) Term { return part(p, 2, 0, "parr") }
func PIdx(p Term) Term { return part(p, 2, 1, "pidx") }
func MkSlice(a, o, l, c Term) Term {
	t := App(SSlice, "mkslice", a, o, l, c)
	t.Parts = []Term{a, o, l, c}
	return t
}
func SArr(s Term) Term { return part(s, 4, 0, "sarr") }
func SOff(s Term) Term { return part(s, 4, 1, "soff") }
func SLen(s Term) Term { return part(s, 4, 2, "slen") }
func SCap(s Term) Term { return part(s, 4, 3, "scap") }
func Sel(a, i Term, sort Sort) Term { return App(sort, "select", a, i) }
func Sto(a, i, v Term) Term      { return App(a.Sort, "store", a, i, v) }

// ---------------------------------------------------------------------------

// Sorts registers datatype declarations lazily.
type Sorts struct {
	byType   map[string]Sort // types.Type string -> sort
	structs  map[Sort]*StructInfo
	order    []Sort // declaration order of struct sorts
	tags     map[string]int // dynamic-type tags for interfaces
	tagNames []string
	arrays   map[Sort]bool
}

type StructInfo struct {
	Sort   Sort
	Type   *types.Struct
	Named  string
	Fields []FieldInfo
}
type FieldInfo struct {
	Name string
	Sel  string // selector function name
	Sort Sort
	Type types.Type
}

func NewSorts() *Sorts {
	return &Sorts{byType: map[string]Sort{}, structs: map[Sort]*StructInfo{}, tags: map[string]int{}, arrays: map[Sort]bool{}}
}

func mangle(s string) string {
	var b strings.Builder
	for _, r := range s {
		switch {
		case r >= 'a' && r <= 'z', r >= 'A' && r <= 'Z', r >= '0' && r <= '9':
			b.WriteRune(r)
		case r == '*':
			b.WriteString("p_")
		case r == '[':
			b.WriteString("s_")
		case r == ']':
		case r == '.' || r == '/':
			b.WriteByte('_')
		default:
			b.WriteByte('_')
		}
	}
	return b.String()
}

func shortTypeName(t types.Type) string {
	return types.TypeString(t, func(p *types.Package) string {
		if p.Path() == "github.com/emicklei/go-restful/v3" {
			return ""
		}
		return p.Name()
	})
}

// SortOf maps a Go type to its SMT sort, declaring datatypes as needed.
func (ss *Sorts) SortOf(t types.Type) Sort {
	switch u := t.(type) {
	case *types.Named:
		if st, ok := u.Underlying().(*types.Struct); ok {
			return ss.structSort(st, shortTypeName(u))
		}
		return ss.SortOf(u.Underlying())
	case *types.Alias:
		return ss.SortOf(types.Unalias(u))
	case *types.Basic:
		switch {
		case u.Info()&types.IsBoolean != 0:
			return SBool
		case u.Info()&types.IsInteger != 0:
			return SInt
		case u.Info()&types.IsFloat != 0:
			return SReal
		case u.Info()&types.IsString != 0:
			return SString
		case u.Kind() == types.UntypedNil:
			return SPtr
		}
		return SOpaque
	case *types.Pointer:
		return SPtr
	case *types.Slice:
		return SSlice
	case *types.Map, *types.Chan:
		return SInt
	case *types.Signature:
		return SFunc
	case *types.Interface:
		return SIface
	case *types.Struct:
		return ss.structSort(u, "")
	case *types.Array:
		es := ss.SortOf(u.Elem())
		s := Sort(fmt.Sprintf("(Array Int %s)", es))
		ss.arrays[s] = true
		return s
	case *types.Tuple:
		return SOpaque
	case *types.TypeParam:
		return SOpaque
	}
	return SOpaque
}

func (ss *Sorts) structSort(st *types.Struct, name string) Sort {
	key := name
	if key == "" {
		key = "anon:" + st.String()
	}
	if s, ok := ss.byType[key]; ok {
		return s
	}
	var sname string
	if name != "" {
		sname = "S_" + mangle(name)
	} else {
		sname = fmt.Sprintf("S_anon%d", len(ss.byType))
	}
	s := Sort(sname)
	ss.byType[key] = s
	info := &StructInfo{Sort: s, Type: st, Named: name}
	ss.structs[s] = info
	for i := 0; i < st.NumFields(); i++ {
		f := st.Field(i)
		fs := ss.SortOf(f.Type())
		sel := fmt.Sprintf("%s.%s", sname, mangle(f.Name()))
		if f.Name() == "_" {
			// blank fields may repeat (padding, noCopy markers in dependency structs): one accessor each
			sel = fmt.Sprintf("%s._%d", sname, i)
		}
		info.Fields = append(info.Fields, FieldInfo{Name: f.Name(), Sel: sel, Sort: fs, Type: f.Type()})
	}
	ss.order = append(ss.order, s)
	return s
}

func (ss *Sorts) Struct(s Sort) *StructInfo { return ss.structs[s] }

// HeapName returns the name of the heap that holds values of Go type t.
func (ss *Sorts) HeapName(t types.Type) string {
	return "H_" + mangle(shortTypeName(t))
}

// HeapSort is the sort of the heap for element sort es.
func HeapSort(es Sort) Sort { return Sort(fmt.Sprintf("(Array Int (Array Int %s))", es)) }
func RowSort(es Sort) Sort  { return Sort(fmt.Sprintf("(Array Int %s)", es)) }

// Tag returns the interface tag of dynamic type t (>= 1).
func (ss *Sorts) Tag(t types.Type) int {
	return ss.TagNamed(shortTypeName(t))
}

func (ss *Sorts) TagNamed(k string) int {
	if n, ok := ss.tags[k]; ok {
		return n
	}
	n := len(ss.tags) + 1
	ss.tags[k] = n
	ss.tagNames = append(ss.tagNames, k)
	return n
}

// Zero returns the zero value of the sort.
func (ss *Sorts) Zero(s Sort) Term {
	switch s {
	case SInt:
		return IntLit(0)
	case SBool:
		return False
	case SString:
		return StrLit("")
	case SReal:
		return Term{S: "0.0", Sort: SReal}
	case SPtr:
		return NilPtr
	case SSlice:
		return Term{S: "(mkslice 0 0 0 0)", Sort: SSlice}
	case SIface:
		return Term{S: "(mkiface 0 (mkptr 0 0))", Sort: SIface}
	case SFunc:
		return Term{S: "(mkfunc 0 (mkptr 0 0))", Sort: SFunc}
	case SOpaque:
		return Term{S: "opaque.zero", Sort: SOpaque}
	}
	if info, ok := ss.structs[s]; ok {
		if len(info.Fields) == 0 {
			return Term{S: "mk." + string(s), Sort: s}
		}
		args := make([]Term, len(info.Fields))
		for i, f := range info.Fields {
			args[i] = ss.Zero(f.Sort)
		}
		return App(s, "mk."+string(s), args...)
	}
	if strings.HasPrefix(string(s), "(Array Int ") {
		es := Sort(strings.TrimSuffix(strings.TrimPrefix(string(s), "(Array Int "), ")"))
		return Term{S: fmt.Sprintf("((as const %s) %s)", s, ss.Zero(es).S), Sort: s}
	}
	return Term{S: "opaque.zero", Sort: SOpaque}
}

// Preamble emits the fixed datatypes and all struct datatypes discovered.
func (ss *Sorts) Preamble() string {
	var b strings.Builder
	b.WriteString("(declare-datatypes ((Ptr 0)) (((mkptr (parr Int) (pidx Int)))))\n")
	b.WriteString("(declare-datatypes ((Slice 0)) (((mkslice (sarr Int) (soff Int) (slen Int) (scap Int)))))\n")
	b.WriteString("(declare-datatypes ((Iface 0)) (((mkiface (itag Int) (ibox Ptr)))))\n")
	b.WriteString("(declare-datatypes ((Func 0)) (((mkfunc (fcode Int) (fenv Ptr)))))\n")
	b.WriteString("(declare-sort Opaque 0)\n(declare-const opaque.zero Opaque)\n")
	for _, s := range ss.order {
		info := ss.structs[s]
		fmt.Fprintf(&b, "(declare-datatypes ((%s 0)) (((mk.%s", s, s)
		for _, f := range info.Fields {
			fmt.Fprintf(&b, " (%s %s)", f.Sel, f.Sort)
		}
		b.WriteString("))))\n")
	}
	return b.String()
}

func (ss *Sorts) TagTable() []string {
	out := make([]string, 0, len(ss.tags))
	for k, v := range ss.tags {
		out = append(out, fmt.Sprintf("%d=%s", v, k))
	}
	sort.Strings(out)
	return out
}

// FieldGet / FieldSet on struct values.
func (ss *Sorts) FieldGet(v Term, i int) Term {
	info := ss.structs[v.Sort]
	if info == nil {
		panic("FieldGet on non-struct sort " + string(v.Sort) + " term " + v.S)
	}
	f := info.Fields[i]
	return App(f.Sort, f.Sel, v)
}
func (ss *Sorts) FieldSet(v Term, i int, x Term) Term {
	info := ss.structs[v.Sort]
	args := make([]Term, len(info.Fields))
	for k, f := range info.Fields {
		if k == i {
			args[k] = x
		} else {
			args[k] = App(f.Sort, f.Sel, v)
		}
	}
	return App(v.Sort, "mk."+string(v.Sort), args...)
}
