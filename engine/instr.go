package main

// Instruction semantics.

import (
	"fmt"
	"go/constant"
	"go/token"
	"go/types"
	"strings"

	"golang.org/x/tools/go/ssa"
)

var cellCounter int

// ---------------------------------------------------------------------------
// values

func (fr *Frame) val(v ssa.Value) Val {
	vc := fr.vc
	switch x := v.(type) {
	case *ssa.Const:
		return TV(vc.constTerm(x))
	case *ssa.Global:
		return TV(vc.globalPtr(x))
	case *ssa.Function:
		return TV(vc.funcValue(x))
	case *ssa.FreeVar:
		if b, ok := fr.free[x]; ok {
			return b
		}
		if r, ok := fr.vals[x]; ok {
			return r
		}
		fail("unbound free variable %s in %s", x.Name(), relFuncName(fr.fn))
	case *ssa.Builtin:
		fail("builtin %s used as value", x.Name())
	}
	if r, ok := fr.vals[v]; ok {
		return r
	}
	fail("value %s (%T) of %s used before definition", v.Name(), v, relFuncName(fr.fn))
	return Val{}
}

func (vc *VC) constTerm(c *ssa.Const) Term {
	s := vc.ss.SortOf(c.Type())
	if c.Value == nil {
		return vc.ss.Zero(s)
	}
	switch s {
	case SInt:
		if c.Value.Kind() == constant.Int {
			if n, ok := constant.Int64Val(c.Value); ok {
				return IntLit(n)
			}
			return Term{S: "(- 0 0)", Sort: SInt}
		}
		if n, ok := constant.Int64Val(constant.ToInt(c.Value)); ok {
			return IntLit(n)
		}
	case SBool:
		return BoolLit(constant.BoolVal(c.Value))
	case SString:
		return StrLit(constant.StringVal(c.Value))
	case SReal:
		f, _ := constant.Float64Val(c.Value)
		str := fmt.Sprintf("%f", f)
		if f < 0 {
			str = fmt.Sprintf("(- %f)", -f)
		}
		return Term{S: str, Sort: SReal}
	}
	return vc.ss.Zero(s)
}

var globalIDs = map[string]int{}

func (vc *VC) globalPtr(g *ssa.Global) Term {
	key := g.String()
	id, ok := globalIDs[key]
	if !ok {
		id = len(globalIDs) + 1
		globalIDs[key] = id
	}
	return MkPtr(IntLit(int64(-id)), IntLit(0))
}

var funcIDs = map[string]int{}
var funcByID = map[int]string{}

func funcCode(name string) int {
	id, ok := funcIDs[name]
	if !ok {
		id = len(funcIDs) + 1
		funcIDs[name] = id
		funcByID[id] = name
	}
	return id
}

func (vc *VC) funcValue(f *ssa.Function) Term {
	return T(SFunc, "(mkfunc %d (mkptr 0 0))", funcCode(f.String()))
}

// ---------------------------------------------------------------------------
// heaps

func (vc *VC) heapFor(st *State, name string, sort Sort) Term {
	if h, ok := st.heaps[name]; ok {
		return h
	}
	h, ok := vc.entryHeaps[name]
	if !ok {
		vc.heapSorts[name] = sort
		n := name + "!0"
		vc.preDecls = append(vc.preDecls, fmt.Sprintf("(declare-const %s %s)", n, sort))
		h = Term{S: n, Sort: sort}
		vc.entryHeaps[name] = h
	}
	st.heaps[name] = h
	return h
}

func (vc *VC) typedHeap(st *State, t types.Type) (string, Term, Sort) {
	es := vc.ss.SortOf(t)
	name := vc.ss.HeapName(t)
	return name, vc.heapFor(st, name, HeapSort(es)), es
}

func (vc *VC) heapLoad(st *State, t types.Type, p Term) Term {
	_, h, es := vc.typedHeap(st, t)
	return Sel(Sel(h, PArr(p), RowSort(es)), PIdx(p), es)
}

// elemLoad reads s[i] through the uninterpreted accessor elem.<heap> applied
// to the slice's row (its backing array as a value). The defining axiom has
// the accessor itself as trigger, so quantified facts over slice elements
// match without arithmetic in patterns, and facts survive heap changes that
// leave the row alone.
func (vc *VC) elemLoad(st *State, t types.Type, s, i Term) Term {
	name := vc.ss.HeapName(t)
	es := vc.specialSort(t)
	fn := "elem." + name
	vc.Uninterp(fn, []Sort{RowSort(es), SSlice, SInt}, es,
		fmt.Sprintf("(forall ((r %s) (s Slice) (i Int)) (! (= (%s r s i) (select r (+ (soff s) i))) :pattern ((%s r s i))))", RowSort(es), fn, fn))
	return App(es, fn, vc.rowFor(st, t, s), s, i)
}

func (vc *VC) heapStore(st *State, t types.Type, p Term, v Term) {
	name, h, es := vc.typedHeap(st, t)
	row := Sel(h, PArr(p), RowSort(es))
	nh := Sto(h, PArr(p), Sto(row, PIdx(p), v))
	st.heaps[name] = vc.Define(name, nh)
}

func (vc *VC) ghost(st *State, name string, sort Sort) Term {
	return vc.heapFor(st, name, sort)
}
func (vc *VC) setGhost(st *State, name string, v Term) {
	vc.heapSorts[name] = v.Sort
	st.heaps[name] = vc.Define(name, v)
}

func (vc *VC) allocTerm(st *State) Term { return vc.ghost(st, "$alloc", SInt) }

// newObject returns a fresh object id.
func (vc *VC) newObject(st *State) Term {
	a := vc.allocTerm(st)
	vc.setGhost(st, "$alloc", Add(a, IntLit(1)))
	return a
}

// wfValue: the value of Go type t refers only to allocated objects and is structurally sane.
func (vc *VC) wfValue(v Term, t types.Type, st *State) Term {
	return vc.wfValueA(v, t, vc.allocTerm(st), 0)
}

func (vc *VC) wfValueA(v Term, t types.Type, alloc Term, depth int) Term {
	if depth > 4 {
		return True
	}
	switch u := t.Underlying().(type) {
	case *types.Basic:
		if u.Info()&types.IsUnsigned != 0 {
			return Le(IntLit(0), v)
		}
		return True
	case *types.Pointer:
		return And(Lt(PArr(v), alloc), Le(IntLit(0), PIdx(v)), Implies(Eq(PArr(v), IntLit(0)), Eq(PIdx(v), IntLit(0))))
	case *types.Slice:
		return And(Lt(SArr(v), alloc), Le(IntLit(0), SOff(v)), Le(IntLit(0), SLen(v)), Le(SLen(v), SCap(v)),
			Implies(Eq(SArr(v), IntLit(0)), Eq(SCap(v), IntLit(0))))
	case *types.Map, *types.Chan:
		return And(Lt(v, alloc), Le(IntLit(0), v))
	case *types.Interface:
		return And(Le(IntLit(0), App(SInt, "itag", v)), Lt(PArr(App(SPtr, "ibox", v)), alloc))
	case *types.Signature:
		return And(Le(IntLit(0), App(SInt, "fcode", v)), Lt(PArr(App(SPtr, "fenv", v)), alloc))
	case *types.Struct:
		if v.Sort == SString { // bytes.Buffer & co mapped to their ghost content
			return True
		}
		info := vc.ss.Struct(v.Sort)
		if info == nil {
			return True
		}
		var cs []Term
		for i, f := range info.Fields {
			if w := vc.wfValueA(vc.ss.FieldGet(v, i), f.Type, alloc, depth+1); w.S != "true" {
				cs = append(cs, w)
			}
		}
		return And(cs...)
	}
	return True
}

// ---------------------------------------------------------------------------
// locations

func (fr *Frame) locLoad(l *Loc, st *State, pos token.Pos) Term {
	vc := fr.vc
	var root Term
	if l.Cell != nil {
		r, ok := st.cells[l.Cell]
		if !ok {
			r = vc.ss.Zero(l.Cell.Sort)
		}
		root = r
	} else {
		vc.Safe("nil", pos, st, Not(Eq(PArr(l.Ptr), IntLit(0))), "nil pointer dereference")
		st.Assume(Not(Eq(PArr(l.Ptr), IntLit(0))))
		fr.guardCheck(l, st, false, pos)
		if l.Slice != nil {
			root = vc.elemLoad(st, l.Root, *l.Slice, *l.Index)
		} else {
			root = vc.heapLoad(st, l.Root, l.Ptr)
		}
	}
	v := root
	for _, f := range l.Path {
		v = vc.ss.FieldGet(v, f)
	}
	if l.Cell == nil && !fr.pure && len(vc.defScopes) == 0 && len(l.Path) > 0 {
		fr.assumeTypeInv(l, st)
	}
	// values read from memory refer to allocated objects only
	if l.Cell == nil && !fr.pure && len(vc.defScopes) == 0 {
		// A heap that has not been written since entry holds only references
		// to objects that existed at entry.
		alloc := fr.wfBound(l, st)
		if wf := vc.wfValueA(v, l.Type, alloc, 0); wf.S != "true" {
			st.Assume(wf)
		}
	} else if l.Cell == nil && fr.pure && vc.wfCollect != nil && len(vc.defScopes) == 0 {
		alloc := fr.wfBound(l, st)
		if wf := vc.wfValueA(v, l.Type, alloc, 0); wf.S != "true" {
			*vc.wfCollect = append(*vc.wfCollect, Implies(st.reach, wf))
		}
	}
	return v
}

// wfBound: the allocation bound below which everything reachable from a
// value loaded from l lies. A heap that has not been written since entry holds,
// in the objects that existed at entry, only references to objects that existed
// at entry; objects a callee allocated meanwhile live in the same heap term and
// may refer to anything allocated so far.
func (fr *Frame) wfBound(l *Loc, st *State) Term {
	vc := fr.vc
	alloc := vc.allocTerm(st)
	hn := vc.ss.HeapName(l.Root)
	if e, ok := vc.entryHeaps[hn]; ok && vc.alloc0.S != "" {
		if cur, ok2 := st.heaps[hn]; !ok2 || cur.S == e.S {
			var arr Term
			if l.Slice != nil {
				arr = SArr(*l.Slice)
			} else {
				arr = PArr(l.Ptr)
			}
			if alloc.S == vc.alloc0.S {
				return vc.alloc0
			}
			return Ite(Lt(arr, vc.alloc0), vc.alloc0, alloc)
		}
	}
	return alloc
}

func (fr *Frame) locStore(l *Loc, st *State, v Term, pos token.Pos) {
	vc := fr.vc
	var root Term
	if l.Cell != nil {
		r, ok := st.cells[l.Cell]
		if !ok {
			r = vc.ss.Zero(l.Cell.Sort)
		}
		root = r
	} else {
		vc.Safe("nil", pos, st, Not(Eq(PArr(l.Ptr), IntLit(0))), "nil pointer dereference (store)")
		st.Assume(Not(Eq(PArr(l.Ptr), IntLit(0))))
		fr.guardCheck(l, st, true, pos)
		if len(l.Path) > 0 {
			root = vc.heapLoad(st, l.Root, l.Ptr)
		}
	}
	nv := fr.setPath(root, l.Path, v)
	if l.Cell != nil {
		st.cells[l.Cell] = vc.Define(l.Cell.Name, nv)
	} else {
		fr.frameCheck(st, l, pos)
		vc.heapStore(st, l.Root, l.Ptr, nv)
		if tn := typeInvName(l.Root); tn != "" && vc.L.CF.TypeInvs[tn] != nil {
			nd := map[string]dirtyObj{}
			for k, d := range st.dirty {
				nd[k] = d
			}
			nd[tn+"|"+l.Ptr.S] = dirtyObj{typ: tn, ptr: l.Ptr}
			st.dirty = nd
		}
	}
}

func (fr *Frame) setPath(root Term, path []int, v Term) Term {
	if len(path) == 0 {
		return v
	}
	inner := fr.setPath(fr.vc.ss.FieldGet(root, path[0]), path[1:], v)
	return fr.vc.ss.FieldSet(root, path[0], inner)
}

func typeInvName(t types.Type) string {
	if n, ok := t.(*types.Named); ok && n.Obj().Pkg() != nil && n.Obj().Pkg().Path() == pkgPath {
		return n.Obj().Name()
	}
	return ""
}

// assumeTypeInv: objects of a type with a representation invariant satisfy it
// whenever package code reads them (it is proved wherever they are written).
func (fr *Frame) assumeTypeInv(l *Loc, st *State) {
	vc := fr.vc
	tn := typeInvName(l.Root)
	if tn == "" {
		return
	}
	cl := vc.L.CF.TypeInvs[tn]
	if cl == nil || vc.inTypeInv {
		return
	}
	// not while the object is being built or modified by this activation
	if _, d := st.dirty[tn+"|"+l.Ptr.S]; d {
		return
	}
	key := tn + "|" + l.Ptr.S + "|" + vc.heapFor(st, vc.ss.HeapName(l.Root), HeapSort(vc.specialSort(l.Root))).S
	if st.invSeen[key] {
		return
	}
	ns := map[string]bool{}
	for k := range st.invSeen {
		ns[k] = true
	}
	ns[key] = true
	st.invSeen = ns
	vc.inTypeInv = true
	p := l.Ptr
	g := fr.evalClauseWith(cl, func(cp ClauseParam, old bool) Val { return TV(p) }, st, nil)
	vc.inTypeInv = false
	vc.assumptions["representation invariant of "+tn+" assumed on read, proved on write: "+cl.Src] = true
	st.Assume(g)
}

// asLoc views a value as a location (pointer values become heap locations).
func (fr *Frame) asLoc(v Val, pointee types.Type) *Loc {
	if v.Loc != nil {
		return v.Loc
	}
	return &Loc{Ptr: v.T, Type: pointee, Root: pointee}
}

func pointee(t types.Type) types.Type {
	if p, ok := t.Underlying().(*types.Pointer); ok {
		return p.Elem()
	}
	panic(vcError{"not a pointer type: " + t.String()})
}

// ---------------------------------------------------------------------------
// escape analysis for Allocs

func (fr *Frame) allocEscapes(a *ssa.Alloc) bool {
	if a.Heap && a.Comment == "" {
		// new(T) / composite literal address
	}
	refs := a.Referrers()
	if refs == nil {
		return true
	}
	return !fr.refsLocal(a, *refs, 0)
}

func (fr *Frame) refsLocal(v ssa.Value, refs []ssa.Instruction, depth int) bool {
	for _, r := range refs {
		switch x := r.(type) {
		case *ssa.DebugRef:
		case *ssa.Store:
			if x.Val == v {
				return false
			}
		case *ssa.UnOp:
			if x.Op != token.MUL {
				return false
			}
		case *ssa.FieldAddr:
			if rr := x.Referrers(); rr == nil || !fr.refsLocal(x, *rr, depth+1) {
				return false
			}
		case *ssa.MakeClosure:
			if !closureInlinable(x) {
				return false
			}
		case ssa.CallInstruction:
			// receiver / argument of a modelled method that works on locations
			com := x.Common()
			callee := com.StaticCallee()
			if callee == nil || !locModelled(callee) {
				return false
			}
		default:
			return false
		}
	}
	return true
}

// closureInlinable: every use of the closure value is an immediate call, a
// defer, or an argument of a spec quantifier.
func closureInlinable(mc *ssa.MakeClosure) bool {
	refs := mc.Referrers()
	if refs == nil {
		return false
	}
	for _, r := range *refs {
		switch x := r.(type) {
		case *ssa.DebugRef:
		case *ssa.Call:
			if x.Call.Value == mc {
				continue
			}
			if c := x.Call.StaticCallee(); c != nil && isQuantIntrinsic(c) {
				continue
			}
			return false
		case *ssa.Defer:
			if x.Call.Value != mc {
				return false
			}
		case *ssa.Store:
			// stored once into a local that is only ever called
			a, ok := x.Addr.(*ssa.Alloc)
			if !ok || x.Val != mc || !closureCell(a) {
				return false
			}
		default:
			return false
		}
	}
	return true
}

// closureCell: a local variable that holds a function literal and is only called.
func closureCell(a *ssa.Alloc) bool {
	refs := a.Referrers()
	if refs == nil {
		return false
	}
	stores := 0
	for _, r := range *refs {
		switch x := r.(type) {
		case *ssa.DebugRef:
		case *ssa.Store:
			if x.Addr != a {
				return false
			}
			if _, ok := x.Val.(*ssa.MakeClosure); !ok {
				return false
			}
			stores++
		case *ssa.UnOp:
			if x.Op != token.MUL {
				return false
			}
			lr := x.Referrers()
			if lr == nil {
				return false
			}
			for _, u := range *lr {
				switch c := u.(type) {
				case *ssa.DebugRef:
				case *ssa.Call:
					if c.Call.Value != x {
						return false
					}
				default:
					return false
				}
			}
		default:
			return false
		}
	}
	return stores == 1
}

func isQuantIntrinsic(f *ssa.Function) bool {
	n := f.Name()
	if o := f.Origin(); o != nil {
		n = o.Name()
	}
	switch n {
	case "forall", "exists", "forallStr", "existsStr", "forallInt", "existsInt", "forallProbe":
		return true
	}
	return false
}

func locModelled(f *ssa.Function) bool {
	_, ok := locModels[f.String()]
	return ok
}

// ---------------------------------------------------------------------------
// instructions

func (fr *Frame) execInstr(ins ssa.Instruction, st *State) *State {
	vc := fr.vc
	switch x := ins.(type) {
	case *ssa.DebugRef:
		return st
	case *ssa.Alloc:
		et := pointee(x.Type())
		es := vc.specialSort(et)
		if !fr.allocEscapes(x) {
			c := fr.cellOf[x]
			if c == nil {
				cellCounter++
				c = &Cell{Name: x.Comment, Type: et, Sort: es, id: cellCounter}
				if c.Name == "" {
					c.Name = x.Name()
				}
				fr.cellOf[x] = c
			}
			st.cells[c] = vc.ss.Zero(es)
			fr.vals[x] = Val{Loc: &Loc{Cell: c, Type: et, Root: et}}
			return st
		}
		// heap object
		if arr, ok := et.Underlying().(*types.Array); ok {
			id := vc.newObject(st)
			// elements live in the element heap at (id, 0..N-1), zeroed
			name, h, ees := vc.typedHeap(st, arr.Elem())
			zrow := T(RowSort(ees), "((as const %s) %s)", RowSort(ees), vc.ss.Zero(ees).S)
			st.heaps[name] = vc.Define(name, Sto(h, id, zrow))
			fr.vals[x] = TV(MkPtr(id, IntLit(0)))
			return st
		}
		id := vc.newObject(st)
		p := MkPtr(id, IntLit(0))
		vc.heapStoreRaw(st, et, p, vc.ss.Zero(es))
		fr.vals[x] = TV(p)
		return st
	case *ssa.Store:
		addr := fr.val(x.Addr)
		v := fr.val(x.Val)
		if v.Clo != nil {
			if a, ok := x.Addr.(*ssa.Alloc); ok && closureCell(a) {
				if fr.cloCells == nil {
					fr.cloCells = map[*ssa.Alloc]*Closure{}
				}
				fr.cloCells[a] = v.Clo
				return st
			}
		}
		if v.Clo != nil || (v.Loc != nil && !v.IsT) {
			fail("%s: storing a closure/location value is outside the subset", vc.posOf(x.Pos()))
		}
		l := fr.asLoc(addr, pointee(x.Addr.Type()))
		fr.locStore(l, st, v.T, x.Pos())
		return st
	case *ssa.UnOp:
		return fr.execUnOp(x, st)
	case *ssa.BinOp:
		fr.vals[x] = TV(fr.binop(x, st))
		return st
	case *ssa.FieldAddr:
		base := fr.val(x.X)
		pt := pointee(x.X.Type())
		stt := pt.Underlying().(*types.Struct)
		ft := stt.Field(x.Field).Type()
		if vc.specialSort(pt) != vc.ss.SortOf(pt) {
			fail("%s: field access into specially modelled type %s", vc.posOf(x.Pos()), pt)
		}
		if base.Loc != nil {
			nl := *base.Loc
			nl.Path = append(append([]int{}, base.Loc.Path...), x.Field)
			nl.Type = ft
			fr.vals[x] = Val{Loc: &nl}
		} else {
			fr.vals[x] = Val{Loc: &Loc{Ptr: base.T, Path: []int{x.Field}, Type: ft, Root: pt}}
		}
		return st
	case *ssa.Field:
		base := fr.val(x.X).T
		fr.vals[x] = TV(vc.ss.FieldGet(base, x.Field))
		return st
	case *ssa.IndexAddr:
		return fr.execIndexAddr(x, st)
	case *ssa.Index:
		base := fr.val(x.X).T
		idx := fr.val(x.Index).T
		switch x.X.Type().Underlying().(type) {
		case *types.Basic: // string
			vc.Safe("index", x.Pos(), st, And(Le(IntLit(0), idx), Lt(idx, App(SInt, "str.len", base))), "string index out of range")
			fr.vals[x] = TV(App(SInt, "str.to_code", App(SString, "str.at", base, idx)))
		case *types.Array:
			fr.vals[x] = TV(Sel(base, idx, vc.ss.SortOf(x.Type())))
		default:
			fail("Index on %s", x.X.Type())
		}
		return st
	case *ssa.Slice:
		return fr.execSlice(x, st)
	case *ssa.MakeSlice:
		et := x.Type().Underlying().(*types.Slice).Elem()
		n := fr.val(x.Len).T
		c := fr.val(x.Cap).T
		vc.Safe("makeslice", x.Pos(), st, And(Le(IntLit(0), n), Le(n, c)), "makeslice: len out of range")
		id := vc.newObject(st)
		name, h, ees := vc.typedHeap(st, et)
		zrow := T(RowSort(ees), "((as const %s) %s)", RowSort(ees), vc.ss.Zero(ees).S)
		st.heaps[name] = vc.Define(name, Sto(h, id, zrow))
		fr.vals[x] = TV(MkSlice(id, IntLit(0), n, c))
		return st
	case *ssa.MakeInterface:
		fr.vals[x] = TV(fr.makeInterface(x.X.Type(), fr.val(x.X), st))
		return st
	case *ssa.ChangeInterface:
		fr.vals[x] = fr.val(x.X)
		return st
	case *ssa.ChangeType:
		fr.vals[x] = fr.val(x.X)
		return st
	case *ssa.Convert:
		return fr.execConvert(x, st)
	case *ssa.TypeAssert:
		return fr.execTypeAssert(x, st)
	case *ssa.Extract:
		tup := fr.val(x.Tuple)
		if x.Index >= len(tup.Tuple) {
			fail("%s: extract #%d of a %d-tuple", vc.posOf(x.Pos()), x.Index, len(tup.Tuple))
		}
		fr.vals[x] = tup.Tuple[x.Index]
		return st
	case *ssa.Phi:
		if _, ok := fr.vals[x]; !ok {
			fail("phi %s without incoming value", x.Name())
		}
		return st
	case *ssa.MakeClosure:
		var bs []Val
		for _, b := range x.Bindings {
			bs = append(bs, fr.val(b))
		}
		fn := x.Fn.(*ssa.Function)
		if closureInlinable(x) {
			fr.vals[x] = Val{Clo: &Closure{Fn: fn, Bindings: bs}}
			return st
		}
		fr.vals[x] = TV(fr.makeClosureValue(x, fn, bs, st))
		return st
	case *ssa.MakeMap:
		return fr.execMakeMap(x, st)
	case *ssa.MapUpdate:
		return fr.execMapUpdate(x, st)
	case *ssa.Lookup:
		return fr.execLookup(x, st)
	case *ssa.Range, *ssa.Next:
		return fr.execRangeNext(ins, st)
	case *ssa.Call:
		v, ns := fr.execCall(x, st)
		if ns != nil {
			fr.vals[x] = v
		}
		return ns
	case *ssa.Defer:
		st.armed[x] = True
		return st
	case *ssa.RunDefers:
		if len(fr.deferSites()) == 0 {
			return st
		}
		return fr.afterDefers(fr.runDefers(st, false))
	case *ssa.MakeChan:
		return fr.execMakeChan(x, st)
	case *ssa.Send:
		return fr.execSend(x, st)
	case *ssa.Select:
		return fr.execSelect(x, st)
	case *ssa.Go:
		fail("%s: go statement is outside the subset", vc.posOf(x.Pos()))
	}
	fail("%s: unsupported instruction %T (%s)", vc.posOf(ins.Pos()), ins, ins)
	return nil
}

// specialSort: external types that are modelled by their ghost content.
func (vc *VC) specialSort(t types.Type) Sort {
	if n, ok := t.(*types.Named); ok && n.Obj().Pkg() != nil {
		switch n.Obj().Pkg().Path() + "." + n.Obj().Name() {
		case "bytes.Buffer":
			return SString
		case pkgPath + ".traceT":
			return STrace
		}
	}
	return vc.ss.SortOf(t)
}

func (vc *VC) boxName(t types.Type) string { return "B_" + mangle(shortTypeName(t)) }

func (vc *VC) boxStore(st *State, t types.Type, p Term, v Term) {
	es := vc.specialSort(t)
	name := vc.boxName(t)
	h := vc.heapFor(st, name, Sort("(Array Int "+string(es)+")"))
	st.heaps[name] = vc.Define(name, Sto(h, PArr(p), v))
}

func (vc *VC) boxLoad(st *State, t types.Type, p Term) Term {
	es := vc.specialSort(t)
	name := vc.boxName(t)
	h := vc.heapFor(st, name, Sort("(Array Int "+string(es)+")"))
	return Sel(h, PArr(p), es)
}

func (vc *VC) heapStoreRaw(st *State, t types.Type, p Term, v Term) {
	es := vc.specialSort(t)
	name := vc.ss.HeapName(t)
	h := vc.heapFor(st, name, HeapSort(es))
	row := Sel(h, PArr(p), RowSort(es))
	st.heaps[name] = vc.Define(name, Sto(h, PArr(p), Sto(row, PIdx(p), v)))
}

func (fr *Frame) execUnOp(x *ssa.UnOp, st *State) *State {
	vc := fr.vc
	switch x.Op {
	case token.MUL:
		if a, ok := x.X.(*ssa.Alloc); ok && fr.cloCells[a] != nil {
			fr.vals[x] = Val{Clo: fr.cloCells[a]}
			return st
		}
		addr := fr.val(x.X)
		l := fr.asLoc(addr, pointee(x.X.Type()))
		fr.vals[x] = TV(fr.locLoad(l, st, x.Pos()))
		if fr.oldVals != nil {
			// nothing: old values come from the separate pre-state evaluation
		}
		return st
	case token.NOT:
		fr.vals[x] = TV(Not(fr.val(x.X).T))
		return st
	case token.SUB:
		v := fr.val(x.X).T
		fr.vals[x] = TV(App(v.Sort, "-", v))
		return st
	case token.ARROW:
		return fr.execRecv(x, st)
	}
	fail("%s: unsupported unary operator %s", vc.posOf(x.Pos()), x.Op)
	return nil
}

func (fr *Frame) binop(x *ssa.BinOp, st *State) Term {
	vc := fr.vc
	a := fr.val(x.X)
	b := fr.val(x.Y)
	if a.Clo != nil || b.Clo != nil || (a.Loc != nil && !a.IsT) || (b.Loc != nil && !b.IsT) {
		fail("%s: comparison of closure/location values", vc.posOf(x.Pos()))
	}
	A, B := a.T, b.T
	srt := A.Sort
	switch x.Op {
	case token.EQL:
		return fr.eqTerm(A, B, x.X.Type())
	case token.NEQ:
		return Not(fr.eqTerm(A, B, x.X.Type()))
	}
	switch srt {
	case SInt, SReal:
		switch x.Op {
		case token.ADD:
			return App(srt, "+", A, B)
		case token.SUB:
			return App(srt, "-", A, B)
		case token.MUL:
			return App(srt, "*", A, B)
		case token.QUO:
			if srt == SInt {
				vc.Safe("div", x.Pos(), st, Not(Eq(B, IntLit(0))), "integer division by zero")
				// Go truncates toward zero; SMT div floors for positive divisor.
				return vc.Define("quo", Ite(And(Le(IntLit(0), A), Lt(IntLit(0), B)), App(SInt, "div", A, B), App(SInt, "go.quo", A, B)))
			}
			return App(srt, "/", A, B)
		case token.REM:
			vc.Safe("div", x.Pos(), st, Not(Eq(B, IntLit(0))), "integer division by zero")
			return vc.Define("rem", Ite(And(Le(IntLit(0), A), Lt(IntLit(0), B)), App(SInt, "mod", A, B), App(SInt, "go.rem", A, B)))
		case token.LSS:
			return App(SBool, "<", A, B)
		case token.LEQ:
			return App(SBool, "<=", A, B)
		case token.GTR:
			return App(SBool, ">", A, B)
		case token.GEQ:
			return App(SBool, ">=", A, B)
		}
	case SString:
		switch x.Op {
		case token.ADD:
			return App(SString, "str.++", A, B)
		case token.LSS:
			return App(SBool, "str.<", A, B)
		case token.LEQ:
			return App(SBool, "str.<=", A, B)
		case token.GTR:
			return App(SBool, "str.<", B, A)
		case token.GEQ:
			return App(SBool, "str.<=", B, A)
		}
	case SBool:
		switch x.Op {
		case token.AND, token.LAND:
			return And(A, B)
		case token.OR, token.LOR:
			return Or(A, B)
		}
	}
	fail("%s: unsupported binary operator %s on %s", vc.posOf(x.Pos()), x.Op, srt)
	return Term{}
}

func (fr *Frame) eqTerm(a, b Term, t types.Type) Term {
	// interface vs nil compares the tag only
	if a.Sort == SIface {
		za := fr.vc.ss.Zero(SIface).S
		if b.S == za {
			return Eq(App(SInt, "itag", a), IntLit(0))
		}
		if a.S == za {
			return Eq(App(SInt, "itag", b), IntLit(0))
		}
		return fr.vc.ifaceEq(a, b)
	}
	if a.Sort == SFunc {
		zf := fr.vc.ss.Zero(SFunc).S
		if b.S == zf {
			return Eq(App(SInt, "fcode", a), IntLit(0))
		}
		if a.S == zf {
			return Eq(App(SInt, "fcode", b), IntLit(0))
		}
	}
	if a.Sort == SSlice {
		// only comparison with nil is legal Go
		if a.S == fr.vc.ss.Zero(SSlice).S {
			return Eq(SArr(b), IntLit(0))
		}
		return Eq(SArr(a), IntLit(0))
	}
	if a.Sort == SPtr {
		if b.S == NilPtr.S {
			return Eq(PArr(a), IntLit(0))
		}
		if a.S == NilPtr.S {
			return Eq(PArr(b), IntLit(0))
		}
	}
	return Eq(a, b)
}

// ifaceEq: interfaces are equal if tags are equal and the boxes are equal
// (pointer dynamic types) — for boxed value types this under-approximates
// equality, so it is only used where the dynamic types are pointers.
func (vc *VC) ifaceEq(a, b Term) Term {
	return Eq(a, b)
}

func (fr *Frame) execIndexAddr(x *ssa.IndexAddr, st *State) *State {
	vc := fr.vc
	base := fr.val(x.X)
	idx := fr.val(x.Index).T
	switch u := x.X.Type().Underlying().(type) {
	case *types.Slice:
		s := base.T
		vc.Safe("index", x.Pos(), st, And(Le(IntLit(0), idx), Lt(idx, SLen(s))), "index out of range")
		st.Assume(And(Le(IntLit(0), idx), Lt(idx, SLen(s))))
		p := MkPtr(SArr(s), Add(SOff(s), idx))
		fr.vals[x] = Val{Loc: &Loc{Ptr: p, Type: u.Elem(), Root: u.Elem(), Slice: &s, Index: &idx}, T: p, IsT: true}
		return st
	case *types.Pointer: // pointer to array
		arr := u.Elem().Underlying().(*types.Array)
		if base.Loc != nil {
			fail("%s: indexing an array held in a local/field location", vc.posOf(x.Pos()))
		}
		vc.Safe("index", x.Pos(), st, And(Le(IntLit(0), idx), Lt(idx, IntLit(arr.Len()))), "array index out of range")
		p := MkPtr(PArr(base.T), Add(PIdx(base.T), idx))
		fr.vals[x] = Val{Loc: &Loc{Ptr: p, Type: arr.Elem(), Root: arr.Elem()}, T: p, IsT: true}
		return st
	}
	fail("%s: IndexAddr on %s", vc.posOf(x.Pos()), x.X.Type())
	return nil
}

func (fr *Frame) execSlice(x *ssa.Slice, st *State) *State {
	vc := fr.vc
	base := fr.val(x.X)
	var lo, hi Term
	if x.Low != nil {
		lo = fr.val(x.Low).T
	} else {
		lo = IntLit(0)
	}
	switch u := x.X.Type().Underlying().(type) {
	case *types.Basic: // string
		s := base.T
		n := App(SInt, "str.len", s)
		if x.High != nil {
			hi = fr.val(x.High).T
		} else {
			hi = n
		}
		vc.Safe("slice", x.Pos(), st, And(Le(IntLit(0), lo), Le(lo, hi), Le(hi, n)), "string slice bounds out of range")
		st.Assume(And(Le(IntLit(0), lo), Le(lo, hi), Le(hi, n)))
		fr.vals[x] = TV(vc.Define("sub", App(SString, "str.substr", s, lo, Sub(hi, lo))))
		return st
	case *types.Slice:
		s := base.T
		if x.High != nil {
			hi = fr.val(x.High).T
		} else {
			hi = SLen(s)
		}
		var mx Term
		if x.Max != nil {
			mx = fr.val(x.Max).T
		} else {
			mx = SCap(s)
		}
		ok := And(Le(IntLit(0), lo), Le(lo, hi), Le(hi, mx), Le(mx, SCap(s)))
		vc.Safe("slice", x.Pos(), st, ok, "slice bounds out of range")
		st.Assume(ok)
		ns := vc.Define("slc", MkSlice(SArr(s), Add(SOff(s), lo), Sub(hi, lo), Sub(mx, lo)))
		if r, ok := vc.rowOf[s.S]; ok {
			vc.rowOf[ns.S] = r
		}
		fr.vals[x] = TV(ns)
		return st
	case *types.Pointer:
		arr := u.Elem().Underlying().(*types.Array)
		if base.Loc != nil {
			fail("%s: slicing an array held in a local location", vc.posOf(x.Pos()))
		}
		n := IntLit(arr.Len())
		if x.High != nil {
			hi = fr.val(x.High).T
		} else {
			hi = n
		}
		ok := And(Le(IntLit(0), lo), Le(lo, hi), Le(hi, n))
		vc.Safe("slice", x.Pos(), st, ok, "slice bounds out of range")
		fr.vals[x] = TV(vc.Define("slc", MkSlice(PArr(base.T), Add(PIdx(base.T), lo), Sub(hi, lo), Sub(n, lo))))
		return st
	}
	fail("%s: Slice on %s", vc.posOf(x.Pos()), x.X.Type())
	return nil
}

func (fr *Frame) makeInterface(t types.Type, v Val, st *State) Term {
	vc := fr.vc
	tag := IntLit(int64(vc.ss.Tag(t)))
	if v.Clo != nil || (v.Loc != nil && !v.IsT) {
		fail("interface from closure/location")
	}
	if _, ok := t.Underlying().(*types.Pointer); ok {
		return App(SIface, "mkiface", tag, v.T)
	}
	// box the value (boxes live in their own heap so that boxing never
	// disturbs ordinary memory)
	id := vc.newObject(st)
	p := MkPtr(id, IntLit(0))
	vc.boxStore(st, t, p, v.T)
	return App(SIface, "mkiface", tag, p)
}

func (fr *Frame) execTypeAssert(x *ssa.TypeAssert, st *State) *State {
	vc := fr.vc
	v := fr.val(x.X).T
	tag := App(SInt, "itag", v)
	box := App(SPtr, "ibox", v)
	if types.IsInterface(x.AssertedType) {
		// interface-to-interface: whether the dynamic type implements it.
		// Known package types are decided statically, others are uninterpreted.
		ok := fr.implementsTerm(tag, x.AssertedType)
		if x.CommaOk {
			fr.vals[x] = Val{Tuple: []Val{TV(Ite(ok, v, vc.ss.Zero(SIface))), TV(ok)}}
		} else {
			vc.Safe("typeassert", x.Pos(), st, ok, "interface conversion may fail")
			st.Assume(ok)
			fr.vals[x] = TV(v)
		}
		return st
	}
	want := IntLit(int64(vc.ss.Tag(x.AssertedType)))
	ok := Eq(tag, want)
	var res Term
	if _, isPtr := x.AssertedType.Underlying().(*types.Pointer); isPtr {
		res = box
	} else {
		res = vc.boxLoad(st, x.AssertedType, box)
	}
	if x.CommaOk {
		fr.vals[x] = Val{Tuple: []Val{TV(Ite(ok, res, vc.ss.Zero(res.Sort))), TV(ok)}}
	} else {
		vc.Safe("typeassert", x.Pos(), st, ok, "type assertion may fail")
		st.Assume(ok)
		fr.vals[x] = TV(res)
	}
	return st
}

// implementsTerm: does the dynamic type with this tag implement iface?
func (fr *Frame) implementsTerm(tag Term, iface types.Type) Term {
	vc := fr.vc
	it := iface.Underlying().(*types.Interface)
	name := "implements." + mangle(shortTypeName(iface))
	vc.Uninterp(name, []Sort{SInt}, SBool)
	res := App(SBool, name, tag)
	// known tags: decide statically (as assumptions on the uninterpreted predicate)
	_ = it
	return res
}

func (fr *Frame) execConvert(x *ssa.Convert, st *State) *State {
	vc := fr.vc
	from := x.X.Type().Underlying()
	to := x.Type().Underlying()
	v := fr.val(x.X).T
	fs, ts := vc.ss.SortOf(from), vc.ss.SortOf(to)
	switch {
	case fs == ts && fs != SSlice:
		fr.vals[x] = TV(v)
		return st
	case fs == SInt && ts == SReal:
		fr.vals[x] = TV(App(SReal, "to_real", v))
		return st
	case fs == SString && ts == SSlice:
		// []byte(s): fresh slice of length len(s); ghost content = s
		id := vc.newObject(st)
		n := App(SInt, "str.len", v)
		sl := MkSlice(id, IntLit(0), n, n)
		vc.Uninterp("bytes.str", []Sort{SInt}, SString)
		st.Assume(Eq(App(SString, "bytes.str", id), v))
		fr.vals[x] = TV(sl)
		return st
	case fs == SSlice && ts == SString:
		vc.Uninterp("str.of.bytes", []Sort{SSlice}, SString)
		r := App(SString, "str.of.bytes", v)
		st.Assume(Eq(App(SInt, "str.len", r), SLen(v)))
		fr.vals[x] = TV(r)
		return st
	}
	fail("%s: unsupported conversion %s -> %s", vc.posOf(x.Pos()), x.X.Type(), x.Type())
	return nil
}

func (fr *Frame) makeClosureValue(x *ssa.MakeClosure, fn *ssa.Function, bs []Val, st *State) Term {
	vc := fr.vc
	id := vc.newObject(st)
	env := MkPtr(id, IntLit(0))
	code := funcCode(fn.String())
	// record bindings in ghost env heaps, one per (function, free variable)
	for i, b := range bs {
		if b.Clo != nil {
			fail("closure captured by a non-inlinable closure")
		}
		var t Term
		if b.Loc != nil && !b.IsT {
			if b.Loc.Cell != nil {
				fail("%s: local variable %s captured by escaping closure but not heap-allocated", vc.posOf(x.Pos()), b.Loc.Cell.Name)
			}
			fail("%s: field location captured by closure", vc.posOf(x.Pos()))
		} else {
			t = b.T
		}
		gname := fmt.Sprintf("env.%d.%d", code, i)
		g := vc.ghost(st, gname, Sort(fmt.Sprintf("(Array Int %s)", t.Sort)))
		vc.setGhost(st, gname, Sto(g, id, t))
	}
	return T(SFunc, "(mkfunc %d %s)", code, env.S)
}

// ---------------------------------------------------------------------------
// panics and defers

func (fr *Frame) execPanic(x *ssa.Panic, st *State) {
	vc := fr.vc
	v := fr.val(x.X).T
	if fr.topContract() != nil && fr.topContract().NoPanic || vc.ct == nil {
		// explicit panic must be unreachable
	}
	fr.raise(st, v, x.Pos(), "explicit panic")
}

func (fr *Frame) topContract() *Contract { return fr.vc.ct }

// raise records an exceptional exit of the current activation.
func (fr *Frame) raise(st *State, val Term, pos token.Pos, why string) {
	if fr.vc.dry > 0 && fr.parent == nil {
		return
	}
	fr.panics = append(fr.panics, panicState{st: st, val: val, why: why + " at " + fr.vc.posOf(pos)})
}

func typeString(t types.Type) string { return shortTypeName(t) }

func hasPrefixAny(s string, ps ...string) bool {
	for _, p := range ps {
		if strings.HasPrefix(s, p) {
			return true
		}
	}
	return false
}
