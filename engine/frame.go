package main

// Frame (modifies) checking, loop frames, defers, panics, and the top-level
// verification of one function against its contract.

import (
	"fmt"
	"go/token"
	"go/types"
	"sort"
	"strings"

	"golang.org/x/tools/go/ssa"
)

func (fr *Frame) frameCheck(st *State, l *Loc, pos token.Pos) {
	vc := fr.vc
	if vc.noFrame || vc.dry > 0 {
		return
	}
	heap := vc.ss.HeapName(l.Root)
	var alts []Term
	alts = append(alts, Le(vc.alloc0, PArr(l.Ptr)))
	for _, it := range vc.modSet {
		if !it.plain() || vc.ss.HeapName(it.heapType) != heap {
			continue
		}
		switch {
		case it.elems:
			alts = append(alts, Eq(PArr(l.Ptr), SArr(it.slice)))
		case it.fields == nil:
			alts = append(alts, Eq(l.Ptr, it.ptr))
		default:
			if len(l.Path) > 0 {
				for _, f := range it.fields {
					if f == l.Path[0] {
						alts = append(alts, Eq(l.Ptr, it.ptr))
					}
				}
			}
		}
	}
	vc.safeCount["frame"]++
	vc.Oblige("frame", fmt.Sprintf("store#%d", vc.safeCount["frame"]), pos, st, Or(alts...),
		"write to memory that is neither allocated by this call nor listed in modifies ("+heap+")")
}

func (fr *Frame) frameCheckArr(st *State, elemT types.Type, arr Term, cond Term, pos token.Pos) {
	vc := fr.vc
	if vc.noFrame || vc.dry > 0 {
		return
	}
	heap := vc.ss.HeapName(elemT)
	alts := []Term{Not(cond), Le(vc.alloc0, arr)}
	for _, it := range vc.modSet {
		if !it.plain() || vc.ss.HeapName(it.heapType) != heap {
			continue
		}
		if it.elems {
			alts = append(alts, Eq(arr, SArr(it.slice)))
		}
	}
	vc.safeCount["frame"]++
	vc.Oblige("frame", fmt.Sprintf("store#%d", vc.safeCount["frame"]), pos, st, Or(alts...),
		"in-place append into a backing array that is neither fresh nor listed in modifies ("+heap+")")
}

// frameCheckItem: a callee's modifies item must be covered by the caller's frame.
func (fr *Frame) frameCheckItem(st *State, it modItem, pos token.Pos) {
	vc := fr.vc
	if vc.noFrame || vc.dry > 0 {
		return
	}
	heap := vc.ss.HeapName(it.heapType)
	var alts []Term
	if it.elems {
		alts = append(alts, Le(vc.alloc0, SArr(it.slice)), Eq(SArr(it.slice), IntLit(0)))
	} else {
		alts = append(alts, Le(vc.alloc0, PArr(it.ptr)))
	}
	for _, m := range vc.modSet {
		if !m.plain() || vc.ss.HeapName(m.heapType) != heap {
			continue
		}
		switch {
		case it.elems && m.elems:
			alts = append(alts, Eq(SArr(it.slice), SArr(m.slice)))
		case !it.elems && m.elems:
			alts = append(alts, Eq(PArr(it.ptr), SArr(m.slice)))
		case !it.elems && m.fields == nil:
			alts = append(alts, Eq(it.ptr, m.ptr))
		case !it.elems && it.fields != nil:
			all := true
			for _, f := range it.fields {
				ok := false
				for _, g := range m.fields {
					if f == g {
						ok = true
					}
				}
				all = all && ok
			}
			if all {
				alts = append(alts, Eq(it.ptr, m.ptr))
			}
		}
	}
	vc.safeCount["frame"]++
	vc.Oblige("frame", fmt.Sprintf("call#%d", vc.safeCount["frame"]), pos, st, Or(alts...),
		"callee may modify memory outside this function's frame ("+heap+")")
}

func (it modItem) plain() bool {
	return it.ghost == "" && !it.cb && !it.headers && it.mapType == nil
}

// loopFrame: objects that existed at function entry and are not in the
// modifies set are unchanged by the loop (justified by the #frame obligations).
func (vc *VC) loopFrame(hs *State, k string, old, nh Term) {
	if k == "$alloc" {
		hs.Assume(Le(old, nh))
		return
	}
	if vc.noFrame || !strings.HasPrefix(string(nh.Sort), "(Array Int (Array Int") {
		return
	}
	base, ok := vc.entryHeaps[k]
	if !ok {
		base = old
	}
	var excl []string
	for _, it := range vc.modSet {
		if !it.plain() || vc.ss.HeapName(it.heapType) != k {
			continue
		}
		if it.elems {
			excl = append(excl, fmt.Sprintf("(not (= a!f %s))", SArr(it.slice).S))
		} else {
			excl = append(excl, fmt.Sprintf("(not (= a!f %s))", PArr(it.ptr).S))
		}
	}
	cond := fmt.Sprintf("(< a!f %s)", vc.alloc0.S)
	if len(excl) > 0 {
		cond = "(and " + cond + " " + strings.Join(excl, " ") + ")"
	}
	hs.Assume(T(SBool, "(forall ((a!f Int)) (! (=> %s (= (select %s a!f) (select %s a!f))) :pattern ((select %s a!f))))", cond, nh.S, base.S, nh.S))
}

// ---------------------------------------------------------------------------
// defers and panics

func (fr *Frame) deferSites() []*ssa.Defer {
	var ds []*ssa.Defer
	for _, b := range fr.fn.Blocks {
		for _, ins := range b.Instrs {
			if d, ok := ins.(*ssa.Defer); ok {
				ds = append(ds, d)
			}
		}
	}
	return ds
}

// runDefers executes the armed deferred calls in reverse order. The ghost
// flag $panicking.<depth> says whether a panic is in flight; a deferred call
// that panics replaces it, recover() clears it, and the remaining deferred
// calls run in either case (as in Go).
func (fr *Frame) runDefers(st *State, panicking bool) *State {
	vc := fr.vc
	pk, pvn := fr.panicGhost()
	vc.heapSorts[pk] = SBool
	vc.heapSorts[pvn] = SIface
	if _, ok := st.heaps[pk]; !ok {
		st.heaps[pk] = BoolLit(panicking)
		st.heaps[pvn] = vc.ss.Zero(SIface)
	}
	ds := fr.deferSites()
	savedRunning := fr.inPanicDefers
	fr.inPanicDefers = true
	defer func() { fr.inPanicDefers = savedRunning }()
	for i := len(ds) - 1; i >= 0; i-- {
		d := ds[i]
		armed, ok := st.armed[d]
		if !ok || armed.S == "false" {
			continue
		}
		run := st.Clone()
		run.Assume(armed)
		before := len(fr.panics)
		_, after := fr.execCall(d, run)
		raised := append([]panicState{}, fr.panics[before:]...)
		fr.panics = fr.panics[:before]
		skip := st.Clone()
		skip.Assume(Not(armed))
		var sts []*State
		if after != nil && after.reach.S != "false" {
			sts = append(sts, after)
		}
		for _, p := range raised {
			ps := p.st
			ps.heaps[pk] = True
			ps.heaps[pvn] = p.val
			sts = append(sts, ps)
		}
		if skip.reach.S != "false" && armed.S != "true" {
			sts = append(sts, skip)
		}
		if len(sts) == 0 {
			return nil
		}
		st = vc.mergeStates(sts, "defer").Clone()
		st.armed[d] = False
	}
	return st
}

func (fr *Frame) panicGhost() (string, string) {
	return fmt.Sprintf("$panicking.%d", fr.depth), fmt.Sprintf("$panicval.%d", fr.depth)
}

// afterDefers splits the state after the deferred calls: a panic still in
// flight leaves the function exceptionally; otherwise execution continues.
func (fr *Frame) afterDefers(after *State) *State {
	if after == nil {
		return nil
	}
	pk, pvn := fr.panicGhost()
	still := after.heaps[pk]
	if still.S != "false" {
		un := after.Clone()
		un.Assume(still)
		if un.reach.S != "false" {
			delete(un.heaps, pk)
			fr.escaped = append(fr.escaped, panicState{st: un, val: after.heaps[pvn], why: "panic not recovered by the deferred calls"})
		}
	}
	cont := after.Clone()
	cont.Assume(Not(still))
	delete(cont.heaps, pk)
	delete(cont.heaps, pvn)
	if cont.reach.S == "false" {
		return nil
	}
	return cont
}

// finishPanics runs the deferred calls on the exceptional exits.
func (fr *Frame) finishPanics() {
	vc := fr.vc
	if len(fr.panics) == 0 {
		fr.panics = fr.escaped
		fr.escaped = nil
		return
	}
	if len(fr.deferSites()) == 0 {
		fr.panics = append(fr.panics, fr.escaped...)
		fr.escaped = nil
		return
	}
	var sts []*State
	for _, p := range fr.panics {
		sts = append(sts, p.st)
	}
	merged := vc.mergeStates(sts, "panic").Clone()
	var pv Term
	for i := len(fr.panics) - 1; i >= 0; i-- {
		if i == len(fr.panics)-1 {
			pv = fr.panics[i].val
		} else {
			pv = Ite(fr.panics[i].st.reach, fr.panics[i].val, pv)
		}
	}
	pk, pvn := fr.panicGhost()
	vc.heapSorts[pk] = SBool
	vc.heapSorts[pvn] = SIface
	merged.heaps[pk] = True
	merged.heaps[pvn] = vc.Define("panicval", pv)
	fr.panics = nil
	after := fr.runDefers(merged, true)
	rec := fr.afterDefers(after)
	if rec != nil {
		// recovered: the function returns its named results (or zero values)
		var rs []Val
		res := fr.fn.Signature.Results()
		for k := 0; k < res.Len(); k++ {
			v := TV(vc.ss.Zero(vc.specialSort(res.At(k).Type())))
			if res.At(k).Name() != "" {
				for _, b := range fr.fn.Blocks {
					for _, ins := range b.Instrs {
						if a, ok := ins.(*ssa.Alloc); ok && a.Pos() == res.At(k).Pos() {
							if av, ok := fr.vals[a]; ok {
								vc.dry++
								v = TV(fr.locLoad(fr.asLoc(av, pointee(a.Type())), rec, token.NoPos))
								vc.dry--
							}
						}
					}
				}
			}
			rs = append(rs, v)
		}
		fr.rets = append(fr.rets, retState{rec, rs, token.NoPos})
	}
	// panics raised while no deferred call was left to run, plus everything that escaped
	fr.panics = append(fr.panics, fr.escaped...)
	fr.escaped = nil
}

func (fr *Frame) builtinRecover(st *State) Val {
	vc := fr.vc
	// recover() is effective only in a function deferred by the panicking function
	if f := fr.parent; f != nil && f.inPanicDefers {
		pk, pvn := f.panicGhost()
		still, ok := st.heaps[pk]
		if !ok {
			return TV(vc.ss.Zero(SIface))
		}
		pv := st.heaps[pvn]
		res := Ite(still, pv, vc.ss.Zero(SIface))
		st.heaps[pk] = False
		return TV(vc.Define("recovered", res))
	}
	return TV(vc.ss.Zero(SIface))
}

// ---------------------------------------------------------------------------
// verifying one function

type FuncResult struct {
	Func        string
	Obligations []*Obligation
	Error       string // outside the subset / contract drift
	VC          *VC
	Inlined     []string
	Callees     []string
	Assumptions []string
}

// VerifyLemma proves a lemma over spec functions: requires ==> ensures for all
// values of its parameters, with the induction hypothesis at v-1 (for v >= 1).
func VerifyLemma(L *Loaded, name string, ct *Contract) (res *FuncResult) {
	res = &FuncResult{Func: name}
	if len(ct.Ensures) == 0 {
		res.Error = "lemma without ensures"
		return
	}
	cfn := L.SSA.Func(ct.Ensures[0].GoName)
	if cfn == nil {
		res.Error = "lemma clause function missing"
		return
	}
	vc := NewVC(L, cfn, ct)
	res.VC = vc
	defer func() {
		if r := recover(); r != nil {
			if e, ok := r.(vcError); ok {
				res.Error = e.msg
				res.Obligations = vc.obls
				return
			}
			panic(r)
		}
	}()
	vc.noFrame = true
	st := &State{reach: True, cells: map[*Cell]Term{}, heaps: map[string]Term{}, armed: map[*ssa.Defer]Term{}}
	a0 := vc.Fresh("alloc0", SInt)
	vc.alloc0 = a0
	vc.heapSorts["$alloc"] = SInt
	st.heaps["$alloc"] = a0
	st.Assume(Le(IntLit(1), a0))
	fr := vc.newFrame(cfn, nil)
	vals := map[string]Val{}
	for _, p := range cfn.Params {
		t := vc.Fresh("in."+p.Name(), vc.specialSort(p.Type()))
		vals[p.Name()] = TV(t)
		if wf := vc.wfValue(t, p.Type(), st); wf.S != "true" {
			st.Assume(wf)
		}
	}
	fr.attachAxioms(st)
	for _, ln := range ct.Uses {
		fr.assumeLemma(ln, st)
	}
	lookupWith := func(m map[string]Val) func(cp ClauseParam, old bool) Val {
		return func(cp ClauseParam, old bool) Val {
			if v, ok := m[cp.Name]; ok {
				return v
			}
			fail("lemma %s: cannot bind %s", name, cp.Name)
			return Val{}
		}
	}
	vc.entry = st.Clone()
	for _, cl := range ct.Requires {
		st.Assume(fr.evalClauseWith(cl, lookupWith(vals), st, nil))
	}
	if strings.HasSuffix(ct.Induction, " strong") {
		// strong (course-of-values) induction: the hypothesis holds at every smaller non-negative value
		// of v, for all values of the other parameters:
		// forall others, m: (0 <= m && m < v && requires[m]) ==> ensures[m]
		iv := strings.TrimSuffix(ct.Induction, " strong")
		v, ok := vals[iv]
		if !ok || v.T.Sort != SInt {
			fail("lemma %s: induction variable %s is not an integer parameter", name, iv)
		}
		var decl []string
		hv := map[string]Val{}
		mv := Term{S: "ih!m", Sort: SInt}
		decl = append(decl, "(ih!m Int)")
		for i, p := range cfn.Params {
			if p.Name() == iv {
				hv[iv] = TV(mv)
				continue
			}
			n := fmt.Sprintf("ih!%d", i)
			srt := vc.specialSort(p.Type())
			decl = append(decl, fmt.Sprintf("(%s %s)", n, srt))
			hv[p.Name()] = TV(Term{S: n, Sort: srt})
		}
		vc.pushScope()
		var reqs, enss []Term
		for _, cl := range ct.Requires {
			reqs = append(reqs, fr.evalClauseWith(cl, lookupWith(hv), st, nil))
		}
		for _, cl := range ct.Ensures {
			enss = append(enss, fr.evalClauseWith(cl, lookupWith(hv), st, nil))
		}
		guard := And(Le(IntLit(0), mv), Lt(mv, v.T))
		body := vc.popScope(Implies(And(append([]Term{guard}, reqs...)...), And(enss...)))
		st.Assume(T(SBool, "(forall (%s) %s)", strings.Join(decl, " "), body.S))
	} else if strings.HasSuffix(ct.Induction, " general") {
		// induction hypothesis quantified over the other parameters:
		// forall others: (v >= 1 && requires[v-1]) ==> ensures[v-1]
		iv := strings.TrimSuffix(ct.Induction, " general")
		v, ok := vals[iv]
		if !ok || v.T.Sort != SInt {
			fail("lemma %s: induction variable %s is not an integer parameter", name, iv)
		}
		type bv struct {
			name string
			sort Sort
		}
		var bvs []bv
		hv := map[string]Val{}
		for i, p := range cfn.Params {
			if p.Name() == iv {
				hv[iv] = TV(Sub(v.T, IntLit(1)))
				continue
			}
			n := fmt.Sprintf("ih!%d", i)
			srt := vc.specialSort(p.Type())
			bvs = append(bvs, bv{n, srt})
			hv[p.Name()] = TV(Term{S: n, Sort: srt})
		}
		vc.pushScope()
		var reqs, enss []Term
		for _, cl := range ct.Requires {
			reqs = append(reqs, fr.evalClauseWith(cl, lookupWith(hv), st, nil))
		}
		for _, cl := range ct.Ensures {
			enss = append(enss, fr.evalClauseWith(cl, lookupWith(hv), st, nil))
		}
		body := vc.popScope(Implies(And(reqs...), And(enss...)))
		var decl []string
		for _, b := range bvs {
			decl = append(decl, fmt.Sprintf("(%s %s)", b.name, b.sort))
		}
		st.Assume(Implies(Le(IntLit(1), v.T), T(SBool, "(forall (%s) %s)", strings.Join(decl, " "), body.S)))
	} else if ct.Induction != "" {
		v, ok := vals[ct.Induction]
		if !ok || v.T.Sort != SInt {
			fail("lemma %s: induction variable %s is not an integer parameter", name, ct.Induction)
		}
		prev := map[string]Val{}
		for k, x := range vals {
			prev[k] = x
		}
		prev[ct.Induction] = TV(vc.Define("ih", Sub(v.T, IntLit(1))))
		var reqs, enss []Term
		for _, cl := range ct.Requires {
			reqs = append(reqs, fr.evalClauseWith(cl, lookupWith(prev), st, nil))
		}
		for _, cl := range ct.Ensures {
			enss = append(enss, fr.evalClauseWith(cl, lookupWith(prev), st, nil))
		}
		st.Assume(Implies(And(append([]Term{Le(IntLit(1), v.T)}, reqs...)...), And(enss...)))
	}
	st.reach = vc.Define("pre", st.reach)
	for _, cl := range ct.Ensures {
		g := fr.evalClauseWith(cl, lookupWith(vals), st, nil)
		vc.Oblige("lemma", cl.Label, token.NoPos, st, g, cl.Src)
	}
	o := vc.Oblige("vacuity", "pre-sat", token.NoPos, st, False, "lemma hypotheses must be satisfiable")
	o.MustFail = true
	res.Obligations = vc.obls
	res.Assumptions = sortedKeys(vc.assumptions)
	return
}

func VerifyFunction(L *Loaded, name string, ct *Contract, prop string) (res *FuncResult) {
	if strings.HasPrefix(name, "lemma:") {
		return VerifyLemma(L, name, ct)
	}
	res = &FuncResult{Func: name}
	fn := L.Func(name)
	if fn == nil {
		res.Error = "contract drift: function not found: " + name
		return
	}
	if ct != nil && ct.Implements != "" {
		// behavioural subtyping: the method must satisfy the interface contract too
		ic := L.CF.Contracts[ct.Implements]
		if ic == nil {
			res.Error = "contract drift: no interface contract " + ct.Implements
			return
		}
		merged := *ct
		merged.Requires = append(append([]*Clause{}, ct.Requires...), ic.Requires...)
		merged.Ensures = append(append([]*Clause{}, ct.Ensures...), ic.Ensures...)
		merged.Signals = append(append([]*Clause{}, ct.Signals...), ic.Signals...)
		merged.Modifies = append(append([]*Clause{}, ct.Modifies...), ic.Modifies...)
		merged.NoPanic = ct.NoPanic || ic.NoPanic
		ct = &merged
	}
	vc := NewVC(L, fn, ct)
	vc.prop = prop
	res.VC = vc
	defer func() {
		if r := recover(); r != nil {
			if e, ok := r.(vcError); ok {
				res.Error = e.msg
				res.Obligations = vc.obls
				return
			}
			panic(r)
		}
	}()
	vc.safetyOn = true
	vc.guardsOn = true
	st := &State{reach: True, cells: map[*Cell]Term{}, heaps: map[string]Term{}, armed: map[*ssa.Defer]Term{}}
	a0 := vc.Fresh("alloc0", SInt)
	vc.alloc0 = a0
	vc.heapSorts["$alloc"] = SInt
	st.heaps["$alloc"] = a0
	st.Assume(Le(IntLit(1), a0))
	fr := vc.newFrame(fn, nil)
	for _, p := range fn.Params {
		s := vc.specialSort(p.Type())
		t := vc.Fresh("in."+p.Name(), s)
		fr.vals[p] = TV(t)
		if wf := vc.wfValue(t, p.Type(), st); wf.S != "true" {
			st.Assume(wf)
		}
		vc.inputs = append(vc.inputs, InputVar{Name: p.Name(), Term: t, Type: p.Type()})
	}
	for _, fv := range fn.FreeVars {
		t := vc.Fresh("fv."+fv.Name(), SPtr)
		fr.vals[fv] = TV(t)
		st.Assume(vc.wfValue(t, fv.Type(), st))
		st.Assume(Not(Eq(PArr(t), IntLit(0))))
	}
	fr.attachAxioms(st)
	if ct != nil {
		for _, ln := range ct.Uses {
			fr.assumeLemma(ln, st)
		}
	}
	// global invariants
	for _, gcl := range L.CF.Globals {
		st.Assume(fr.evalClauseWith(gcl, func(cp ClauseParam, old bool) Val {
			fail("global invariant mentions a local name %s", cp.Name)
			return Val{}
		}, st, nil))
	}
	vc.entry = st.Clone()
	if ct != nil {
		for _, cl := range ct.Requires {
			st.Assume(fr.evalClause2(cl, st, nil, nil, nil))
		}
		vc.modSet = fr.modItems(ct, func(cp ClauseParam, old bool) Val {
			for _, p := range fn.Params {
				if p.Pos() == token.Pos(cp.Pos) {
					return fr.val(p)
				}
			}
			for _, fv := range fn.FreeVars {
				if fv.Pos() == token.Pos(cp.Pos) && fv.Name() == cp.Name {
					vc.dry++
					t := fr.locLoad(fr.asLoc(fr.val(fv), pointee(fv.Type())), st, token.NoPos)
					vc.dry--
					return TV(t)
				}
			}
			fail("modifies clause of %s: cannot bind %s", name, cp.Name)
			return Val{}
		}, st)
		if ct.Sweep {
			vc.noFrame = true
		}
	} else {
		vc.noFrame = true
	}
	st.reach = vc.Define("pre", st.reach)
	vc.entry = st.Clone()
	if ct != nil {
		vc.ownClause = map[*Clause]bool{}
		for _, cl := range ct.Ensures {
			vc.ownClause[cl] = true
		}
		for _, cls := range ct.Invariants {
			for _, cl := range cls {
				vc.ownClause[cl] = true
			}
		}
	}
	// ghost counters advanced by every call of this function
	if ct != nil {
		for _, gi := range ct.GhostInc {
			for _, p := range fn.Params {
				if p.Name() == gi[1] {
					gname := "$g." + gi[0]
					g := vc.ghost(st, gname, Sort("(Array Ptr Int)"))
					key := asPtr(fr.val(p))
					vc.setGhost(st, gname, Sto(g, key, Add(Sel(g, key, SInt), IntLit(1))))
				}
			}
		}
	}
	// vacuity: the precondition must be satisfiable
	if ct != nil && len(ct.Requires) > 0 {
		o := vc.Oblige("vacuity", "pre-sat", fn.Pos(), st, False, "precondition (with type invariants) must be satisfiable")
		o.MustFail = true
	}
	fr.execRegion(fn.Blocks[0], nil, st)
	fr.finishPanics()
	// postconditions on every normal exit
	for i, r := range fr.rets {
		if ct != nil {
			for _, cl := range ct.Ensures {
				g := fr.evalClause2(cl, r.st, vc.entry, r.results, nil)
				lab := cl.Label
				if len(fr.rets) > 1 {
					lab = fmt.Sprintf("%s@ret%d", cl.Label, i)
				}
				rp := r.pos
				if !rp.IsValid() {
					rp = fn.Pos()
				}
				vc.curClauseProps = cl.Props
				vc.Oblige("post", lab, rp, r.st, g, cl.Src)
				vc.curClauseProps = nil
			}
			for _, gcl := range L.CF.Globals {
				g := fr.evalClauseWith(gcl, nil, r.st, nil)
				if g.S != "true" && globalTouched(vc, r.st) {
					vc.Oblige("global", fmt.Sprintf("%s@ret%d", gcl.Label, i), fn.Pos(), r.st, g, gcl.Src)
				}
			}
		}
		// representation invariants of the objects this activation wrote
		for _, k := range sortedDirty(r.st.dirty) {
			d := r.st.dirty[k]
			cl := L.CF.TypeInvs[d.typ]
			p := d.ptr
			vc.inTypeInv = true
			g := fr.evalClauseWith(cl, func(cp ClauseParam, old bool) Val { return TV(p) }, r.st, nil)
			vc.inTypeInv = false
			vc.Oblige("typeinv", fmt.Sprintf("%s@ret%d.%d", d.typ, i, vc.nextCount("typeinv")), r.pos, r.st, g, "representation invariant of "+d.typ+": "+cl.Src)
		}
		// reachability canary
		o := vc.Oblige("vacuity", fmt.Sprintf("reach@ret%d", i), fn.Pos(), r.st, False, "return must be reachable")
		if o != nil {
			o.MustFail = true
		}
	}
	// exceptional exits
	if ct != nil {
		for i, p := range fr.panics {
			if ct.NoPanic {
				vc.Oblige("nopanic", fmt.Sprintf("exit%d", i), fn.Pos(), p.st, False, "function must not panic: "+p.why)
				continue
			}
			for _, cl := range ct.Signals {
				g := fr.evalClause2(cl, p.st, vc.entry, nil, nil)
				vc.curClauseProps = cl.Props
				vc.Oblige("signals", fmt.Sprintf("%s@exit%d", cl.Label, i), fn.Pos(), p.st, g, cl.Src)
				vc.curClauseProps = nil
			}
		}
	}
	// vacuity of call-site clauses: a clause that applied to no call at all
	// constrains nothing (the callee was renamed, or the call disappeared)
	if ct != nil {
		var keys []string
		for k := range ct.CallSites {
			keys = append(keys, k)
		}
		sort.Strings(keys)
		for _, k := range keys {
			for _, cl := range ct.CallSites[k] {
				if !vc.firedCS[cl] {
					vc.curClauseProps = cl.Props
					o := vc.Oblige("callsite", fmt.Sprintf("%s.%s.never-applies", k, cl.Label), fn.Pos(), vc.entry, False, "call-site clause applies to no call of "+k+" in this function: "+cl.Src)
					vc.curClauseProps = nil
					_ = o
				}
			}
		}
	}
	res.Obligations = vc.obls
	res.Inlined = sortedKeys(vc.inlined)
	res.Callees = sortedKeys(vc.callees)
	res.Assumptions = sortedKeys(vc.assumptions)
	return
}

// assumeLemma: a lemma proved elsewhere (its own obligations belong to the
// same property checks) is assumed here, universally quantified over its
// parameters and over the heaps its clauses read.
func (fr *Frame) assumeLemma(name string, st *State) {
	vc := fr.vc
	// `uses G/lemma`: the lemma is a hypothesis of the obligations of proof group G only
	group := ""
	if i := strings.Index(name, "/"); i > 0 {
		group, name = name[:i], name[i+1:]
	}
	lc := vc.L.CF.Contracts["lemma:"+name]
	if lc == nil {
		fail("uses: no lemma %s", name)
	}
	if len(lc.Ensures) == 0 {
		fail("uses: lemma %s has no ensures", name)
	}
	cfn := vc.L.SSA.Func(lc.Ensures[0].GoName)
	// bound variables for the parameters
	type bv struct {
		name string
		sort Sort
	}
	var bvs []bv
	vals := map[string]Val{}
	defined := map[string]*Clause{}
	for _, cl := range lc.Requires {
		if cl.DefGoName != "" {
			defined[strings.TrimPrefix(cl.Label, "def.")] = cl
		}
	}
	for i, p := range cfn.Params {
		if defined[p.Name()] != nil {
			continue
		}
		n := fmt.Sprintf("lv!%s!%d", mangle(name), i)
		s := vc.specialSort(p.Type())
		bvs = append(bvs, bv{n, s})
		vals[p.Name()] = TV(Term{S: n, Sort: s})
	}
	// defined parameters are placeholders until the heaps are bound (below)
	for v := range defined {
		vals[v] = TV(IntLit(0))
	}
	// bound variables for the heaps
	ls := &State{pure: true, reach: True, cells: map[*Cell]Term{}, heaps: map[string]Term{}, armed: map[*ssa.Defer]Term{}}
	heaps := map[string]bool{}
	for _, cl := range append(append([]*Clause{}, lc.Requires...), lc.Ensures...) {
		if f := vc.L.SSA.Func(cl.GoName); f != nil {
			for _, h := range vc.specHeaps(f) {
				heaps[h] = true
			}
		}
	}
	for _, tr := range lc.Triggers {
		for _, ms := range tr.modParsed {
			if f := vc.L.SSA.Func(ms.goName); f != nil {
				for _, h := range vc.specHeaps(f) {
					heaps[h] = true
				}
			}
		}
	}
	// a slice parameter of the lemma is passed on to spec functions together with its backing array:
	// the heap of its element type is universally quantified as well
	for _, p := range cfn.Params {
		if sl, ok := p.Type().Underlying().(*types.Slice); ok {
			hn, _, _ := vc.typedHeap(ls, sl.Elem())
			delete(ls.heaps, hn)
			heaps[hn] = true
		}
	}
	for _, h := range sortedKeys(heaps) {
		n := fmt.Sprintf("lh!%s!%s", mangle(name), mangle(h))
		bvs = append(bvs, bv{n, vc.heapSorts[h]})
		ls.heaps[h] = Term{S: n, Sort: vc.heapSorts[h]}
	}
	lookup := func(cp ClauseParam, old bool) Val {
		if v, ok := vals[cp.Name]; ok {
			return v
		}
		fail("lemma %s: cannot bind %s", name, cp.Name)
		return Val{}
	}
	vc.pushScope()
	for v, cl := range defined {
		df := vc.L.SSA.Func(cl.DefGoName)
		var args []Val
		for _, p := range df.Params {
			args = append(args, vals[p.Name()])
		}
		r, _ := fr.evalPure(df, args, ls, nil)
		vals[v] = r
	}
	var reqs, enss []Term
	for _, cl := range lc.Requires {
		reqs = append(reqs, fr.evalClauseWith(cl, lookup, ls, nil))
	}
	for _, cl := range lc.Ensures {
		enss = append(enss, fr.evalClauseWith(cl, lookup, ls, nil))
	}
	var pats []string
	for _, tr := range lc.Triggers {
		var terms []string
		for _, ms := range tr.modParsed {
			f := vc.L.SSA.Func(ms.goName)
			var args []Val
			for _, p := range f.Params {
				args = append(args, vals[p.Name()])
			}
			vc.lastTrigger = Term{}
			fr.evalPure(f, args, ls, nil)
			if vc.lastTrigger.S == "" {
				fail("lemma %s: trigger %q did not evaluate", name, ms.expr)
			}
			terms = append(terms, vc.lastTrigger.S)
		}
		pats = append(pats, ":pattern ("+strings.Join(terms, " ")+")")
	}
	body := vc.popScope(Implies(And(reqs...), And(enss...)))
	var decl []string
	for _, b := range bvs {
		decl = append(decl, fmt.Sprintf("(%s %s)", b.name, b.sort))
	}
	text := body.S
	if len(pats) > 0 {
		text = "(! " + text + " " + strings.Join(pats, " ") + ")"
	}
	vc.assumptions["lemma "+name+" (proved separately) used as an axiom"] = true
	ax := T(SBool, "(forall (%s) %s)", strings.Join(decl, " "), text)
	if group != "" {
		n := vc.freshName("lemma." + mangle(name))
		vc.decls = append(vc.decls, fmt.Sprintf("(define-fun %s () Bool %s)", n, ax.S))
		if vc.groupOf == nil {
			vc.groupOf = map[string]string{}
		}
		vc.groupOf[n] = group
		ax = Term{S: n, Sort: SBool}
	}
	st.Assume(ax)
}

func (fr *Frame) attachAxioms(st *State) {
	vc := fr.vc
	L := vc.L
	// axioms about opaque spec functions: attached to the first opaque
	// function they mention, so they are emitted exactly when it is used
	for _, acl := range L.CF.Axioms {
		t := fr.evalClauseWith(acl, nil, st, nil)
		vc.assumptions["axiom:"+acl.Label+" ("+acl.Src+")"] = true
		attached := false
		for _, tok := range strings.FieldsFunc(vc.expandDefs(t.S), tokenSplit) {
			if g, ok := vc.gdefs[tok]; ok && g.Decl != "" && strings.HasPrefix(tok, "spec.") {
				g.Axioms = append(g.Axioms, vc.expandDefs(t.S))
				attached = true
				break
			}
		}
		if !attached {
			fail("axiom %s mentions no opaque spec function", acl.Label)
		}
	}
}

// globalTouched: did the function write any global-variable heap?
func globalTouched(vc *VC, st *State) bool {
	for k, v := range st.heaps {
		if e, ok := vc.entryHeaps[k]; ok && e.S != v.S && strings.HasPrefix(k, "H_") {
			return true
		}
	}
	return false
}

func sortedDirty(m map[string]dirtyObj) []string {
	var ks []string
	for k := range m {
		ks = append(ks, k)
	}
	sort.Strings(ks)
	return ks
}

func sortObls(os []*Obligation) {
	sort.SliceStable(os, func(i, j int) bool { return os[i].Name < os[j].Name })
}
