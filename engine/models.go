package main

// Assumed contracts of dependencies that are built into the engine (DESIGN §5).
// Every use is recorded in vc.assumptions and ends up in the evidence file.

import (
	"fmt"
	"go/token"
	"go/types"

	"golang.org/x/tools/go/ssa"
)

type modelFn func(fr *Frame, args []Val, st *State, pos token.Pos) (Val, *State)

var models = map[string]modelFn{}
var locModels = map[string]modelFn{}

func init() {
	for k, v := range map[string]modelFn{
		"strings.HasPrefix": func(fr *Frame, a []Val, st *State, pos token.Pos) (Val, *State) {
			fr.vc.assumptions["A-BYTE"] = true
			return TV(App(SBool, "str.prefixof", a[1].T, a[0].T)), st
		},
		"strings.HasSuffix": func(fr *Frame, a []Val, st *State, pos token.Pos) (Val, *State) {
			fr.vc.assumptions["A-BYTE"] = true
			return TV(App(SBool, "str.suffixof", a[1].T, a[0].T)), st
		},
		"strings.Index": func(fr *Frame, a []Val, st *State, pos token.Pos) (Val, *State) {
			fr.vc.assumptions["A-BYTE"] = true
			return TV(fr.vc.Define("idx", App(SInt, "str.indexof", a[0].T, a[1].T, IntLit(0)))), st
		},
		"strings.Contains": func(fr *Frame, a []Val, st *State, pos token.Pos) (Val, *State) {
			fr.vc.assumptions["A-BYTE"] = true
			return TV(App(SBool, "str.contains", a[0].T, a[1].T)), st
		},
		"strings.ToLower": func(fr *Frame, a []Val, st *State, pos token.Pos) (Val, *State) {
			vc := fr.vc
			vc.assumptions["model:strings.ToLower (uninterpreted, idempotent)"] = true
			vc.Uninterp("strings.lower", []Sort{SString}, SString,
				"(forall ((s String)) (! (= (strings.lower (strings.lower s)) (strings.lower s)) :pattern ((strings.lower s))))")
			return TV(App(SString, "strings.lower", a[0].T)), st
		},
		"strings.TrimSpace": func(fr *Frame, a []Val, st *State, pos token.Pos) (Val, *State) {
			vc := fr.vc
			vc.assumptions["model:strings.TrimSpace (uninterpreted)"] = true
			vc.Uninterp("strings.trimspace", []Sort{SString}, SString)
			return TV(App(SString, "strings.trimspace", a[0].T)), st
		},
		"strings.TrimFunc": func(fr *Frame, a []Val, st *State, pos token.Pos) (Val, *State) {
			vc := fr.vc
			// only the package's own cut-set predicate (r == ' ') is supported;
			// stringTrimSpaceCutset itself is verified against `r == 32`.
			want := vc.funcValue(vc.L.SSA.Func("stringTrimSpaceCutset"))
			if a[1].T.S != want.S {
				fail("%s: strings.TrimFunc with an unknown predicate", vc.posOf(pos))
			}
			mf := vc.L.SSA.Func("model_strings_Trim")
			if mf == nil {
				fail("model_strings_Trim missing")
			}
			vc.assumptions["model:strings.TrimFunc(s, r==' ') == Trim(s, \" \")"] = true
			return TV(vc.specApp(mf, []Val{a[0], TV(StrLit(" "))}, st)), st
		},
		"strings.Split": modelSplit,
		"sort.Reverse": func(fr *Frame, a []Val, st *State, pos token.Pos) (Val, *State) {
			fr.vc.assumptions["model:sort.Reverse as the identity (the reversed order is stated in the contract of sort.Sort@reverse:T)"] = true
			return a[0], st
		},
		"regexp.MatchString": func(fr *Frame, a []Val, st *State, pos token.Pos) (Val, *State) {
			vc := fr.vc
			vc.assumptions["model:regexp.MatchString == (rx(pattern, s), rxerr(pattern)) uninterpreted"] = true
			vc.Uninterp("rx", []Sort{SString, SString}, SBool)
			vc.Uninterp("rxerr", []Sort{SString}, SIface)
			return Val{Tuple: []Val{TV(App(SBool, "rx", a[0].T, a[1].T)), TV(App(SIface, "rxerr", a[0].T))}}, st
		},
		"fmt.Sprintf": func(fr *Frame, a []Val, st *State, pos token.Pos) (Val, *State) {
			fr.vc.assumptions["model:fmt.Sprintf (unconstrained string, no effects)"] = true
			return TV(fr.vc.Fresh("sprintf", SString)), st
		},
		"path.Join": func(fr *Frame, a []Val, st *State, pos token.Pos) (Val, *State) {
			fr.vc.assumptions["model:path.Join (unconstrained string; only used when TrimRightSlashEnabled is false)"] = true
			return TV(fr.vc.Fresh("pathjoin", SString)), st
		},
		"fmt.Sprint": func(fr *Frame, a []Val, st *State, pos token.Pos) (Val, *State) {
			fr.vc.assumptions["model:fmt.Sprint (unconstrained string, no effects)"] = true
			return TV(fr.vc.Fresh("sprint", SString)), st
		},
		"errors.New": func(fr *Frame, a []Val, st *State, pos token.Pos) (Val, *State) {
			vc := fr.vc
			vc.assumptions["model:errors.New (fresh non-nil error)"] = true
			id := vc.newObject(st)
			tag := vc.ss.TagNamed("*errors.errorString")
			return TV(T(SIface, "(mkiface %d (mkptr %s 0))", tag, id.S)), st
		},
		"strconv.Itoa": func(fr *Frame, a []Val, st *State, pos token.Pos) (Val, *State) {
			vc := fr.vc
			vc.assumptions["model:strconv.Itoa (uninterpreted)"] = true
			vc.Uninterp("strconv.itoa", []Sort{SInt}, SString)
			return TV(App(SString, "strconv.itoa", a[0].T)), st
		},
		"strconv.ParseFloat": func(fr *Frame, a []Val, st *State, pos token.Pos) (Val, *State) {
			vc := fr.vc
			vc.assumptions["model:strconv.ParseFloat (uninterpreted value and error; NaN/Inf excluded)"] = true
			vc.Uninterp("parsefloat.val", []Sort{SString}, SReal)
			vc.Uninterp("parsefloat.err", []Sort{SString}, SIface)
			return Val{Tuple: []Val{TV(App(SReal, "parsefloat.val", a[0].T)), TV(App(SIface, "parsefloat.err", a[0].T))}}, st
		},
		"os.Exit": func(fr *Frame, a []Val, st *State, pos token.Pos) (Val, *State) {
			fr.vc.Oblige("exit", "os.Exit", pos, st, False, "os.Exit must be unreachable")
			return Val{}, nil
		},
	} {
		models[k] = v
	}
	for _, n := range []string{"Printf", "Print", "Println"} {
		models[pkgPath+"/log."+n] = func(fr *Frame, a []Val, st *State, pos token.Pos) (Val, *State) {
			fr.vc.assumptions["model:log.* has no effect on modelled state"] = true
			return Val{}, st
		}
		models["log."+n] = models[pkgPath+"/log."+n]
	}
	for k, v := range map[string]modelFn{
		"(*bytes.Buffer).WriteString": func(fr *Frame, a []Val, st *State, pos token.Pos) (Val, *State) {
			vc := fr.vc
			vc.assumptions["model:bytes.Buffer (content as string)"] = true
			l := fr.bufLoc(a[0])
			cur := fr.locLoad(l, st, pos)
			fr.locStoreNoFrame(l, st, App(SString, "str.++", cur, a[1].T))
			return Val{Tuple: []Val{TV(App(SInt, "str.len", a[1].T)), TV(vc.ss.Zero(SIface))}}, st
		},
		"(*bytes.Buffer).String": func(fr *Frame, a []Val, st *State, pos token.Pos) (Val, *State) {
			l := fr.bufLoc(a[0])
			return TV(fr.locLoad(l, st, pos)), st
		},
		"(*bytes.Buffer).Len": func(fr *Frame, a []Val, st *State, pos token.Pos) (Val, *State) {
			l := fr.bufLoc(a[0])
			return TV(App(SInt, "str.len", fr.locLoad(l, st, pos))), st
		},
		"(*bytes.Buffer).Bytes": func(fr *Frame, a []Val, st *State, pos token.Pos) (Val, *State) {
			vc := fr.vc
			l := fr.bufLoc(a[0])
			s := fr.locLoad(l, st, pos)
			id := vc.newObject(st)
			n := App(SInt, "str.len", s)
			vc.Uninterp("bytes.str", []Sort{SInt}, SString)
			st.Assume(Eq(App(SString, "bytes.str", id), s))
			return TV(MkSlice(id, IntLit(0), n, n)), st
		},
	} {
		locModels[k] = v
	}
}

func (fr *Frame) bufLoc(v Val) *Loc {
	if v.Loc != nil {
		return v.Loc
	}
	bt := fr.vc.L.bytesBufferType()
	return &Loc{Ptr: v.T, Type: bt, Root: bt}
}

func (L *Loaded) bytesBufferType() types.Type {
	for _, imp := range L.Pkg.Imports() {
		if imp.Path() == "bytes" {
			return imp.Scope().Lookup("Buffer").Type()
		}
	}
	fail("package bytes not imported")
	return nil
}

func (fr *Frame) locStoreNoFrame(l *Loc, st *State, v Term) {
	save := fr.vc.noFrame
	fr.vc.noFrame = true
	fr.locStore(l, st, v, token.NoPos)
	fr.vc.noFrame = save
}

// strings.Split(s, sep): a fresh slice whose length and elements are given by
// the recursive model functions model_splitCount / model_splitPart.
func modelSplit(fr *Frame, a []Val, st *State, pos token.Pos) (Val, *State) {
	vc := fr.vc
	vc.assumptions["model:strings.Split (recursive definition over Index; sep non-empty)"] = true
	cnt := vc.L.SSA.Func("model_splitCount")
	part := vc.L.SSA.Func("model_splitPart")
	if cnt == nil || part == nil {
		fail("model_splitCount/model_splitPart missing from /verif/models")
	}
	s, sep := a[0], a[1]
	id := vc.newObject(st)
	n := vc.Define("nsplit", vc.specApp(cnt, []Val{s, sep}, st))
	var strT types.Type = types.Typ[types.String]
	name, h, es := vc.typedHeap(st, strT)
	row := vc.Fresh("row.split", RowSort(es))
	vc.fresh++
	j := Term{S: fmt.Sprintf("j!%d", vc.fresh), Sort: SInt}
	el := vc.specApp(part, []Val{s, sep, TV(j)}, st)
	st.Assume(T(SBool, "(forall ((%s Int)) (! (=> (and (<= 0 %s) (< %s %s)) (= (select %s %s) %s)) :pattern ((select %s %s))))", j.S, j.S, j.S, n.S, row.S, j.S, el.S, row.S, j.S))
	st.Assume(Le(IntLit(1), n))
	st.heaps[name] = vc.Define(name, Sto(h, id, row))
	return TV(MkSlice(id, IntLit(0), n, n)), st
}

var _ = ssa.NaiveForm
