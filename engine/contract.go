package main

// Parser for the //@ contract blocks of /repo/verif_contracts.go.
//
//   //@ func (CurlyRouter).matchesRouteByPathTokens
//   //@ props C01 C02
//   //@ requires wf: wfTokens(routeTokens)
//   //@ ensures iff: matches == pathAdmits(routeTokens, requestTokens, routeHasCustomVerb)
//   //@ loop 0 invariant bound: it_i <= len(requestTokens)
//   //@ modifies *f
//   //@ nopanic
//
// A clause is `kind [label:] expr`. Expressions are Go expressions extended with
// `==>` (implication, lowest precedence, right associative). A line ending in
// `\` continues on the next //@ line.

import (
	"bufio"
	"fmt"
	"os"
	"regexp"
	"strconv"
	"strings"
)

type Clause struct {
	Kind   string // requires ensures signals invariant assert modifies
	Label  string
	Expr   string // Go expression text (after ==> rewriting)
	Src    string // as written
	Loop   int
	Line   int
	Props  []string // restricts the clause to these properties (empty = contract's props)
	GoName string   // generated clause function
	Params []ClauseParam
	HasOld bool
	DefGoName string // lemma `requires def.v: v == e`: function computing e
	CallType string
	Exit bool // `loop k exit`: proved on every edge leaving the loop, then assumed (a cut point)
	modParsed []*modSpec
}

type modSpec struct {
	kind   string // ptr field elems ghost nothing
	name   string
	expr   string
	fields []string
	goName string
	params []ClauseParam
}

type ClauseParam struct {
	Name string
	Kind string // "var" (param/local/result var), "result" (k-th unnamed result), "it_i", "it_n"
	Idx  int
	Pos  int // token.Pos of the types.Var, for matching with ssa.Alloc / Parameter / FreeVar
}

type Contract struct {
	Func       string
	Line       int
	Props      []string
	Requires   []*Clause
	Ensures    []*Clause
	Signals    []*Clause
	Invariants map[int][]*Clause
	LoopKeeps  map[int][]string // `loop k keeps H_T`: arrays of heap H_T that exist when loop k is entered keep their contents (an inferred invariant, proved on every back edge)
	Modifies   []*Clause
	NoPanic    bool
	Inline     bool
	Trusted    string // non-empty: contract is assumed, with this reason
	Pure       bool
	Sweep      bool // only safety obligations (no functional contract)
	Opts       map[string]string
	CallSites  map[string][]*Clause // function type name -> obligations at dynamic call sites
	LemmaParams string // lemma: Go parameter list
	Implements string // interface contract this method must satisfy (behavioural subtyping)
	GhostInc   [][2]string // ghost counters advanced by every call: (name, parameter)
	Triggers   []*Clause   // lemma: multi-patterns used when the lemma is instantiated by `uses`
	Uses       []string    // proved lemmas assumed (universally quantified) in this proof
	Drift      []string    // clauses that no longer apply to the code (dropped; reported)
	Induction  string // lemma: induction variable
}

func (c *Contract) AllClauses() []*Clause {
	var out []*Clause
	out = append(out, c.Requires...)
	out = append(out, c.Ensures...)
	out = append(out, c.Signals...)
	for _, l := range c.Invariants {
		out = append(out, l...)
	}
	for _, l := range c.CallSites {
		out = append(out, l...)
	}
	out = append(out, c.Modifies...)
	return out
}

func (c *Contract) funcName() string {
	if c == nil {
		return ""
	}
	return c.Func
}

func (c *Contract) HasProp(p string) bool {
	if p == "" {
		return true
	}
	for _, q := range c.Props {
		if q == p {
			return true
		}
	}
	return false
}

type ContractFile struct {
	Contracts map[string]*Contract
	Order     []string
	Globals   []*Clause // global invariants (`//@ global invariant ...`)
	Axioms    []*Clause // assumed facts about opaque spec functions (`//@ axiom ...`)
	TypeInvs  map[string]*Clause // representation invariants: `//@ typeinv T [mutable f g]: expr(self)`
	TypeInvMutable map[string][]string // fields that methods may change after construction
	Guarded   []GuardDecl
}

type GuardDecl struct {
	Struct string
	Fields []string
	Lock   string
	When   string
}

var labelRe = regexp.MustCompile(`^([A-Za-z0-9_./\-]+):\s+(.*)$`)

func ParseContracts(path string) (*ContractFile, error) {
	f, err := os.Open(path)
	if err != nil {
		return nil, err
	}
	defer f.Close()
	cf := &ContractFile{Contracts: map[string]*Contract{}, TypeInvs: map[string]*Clause{}, TypeInvMutable: map[string][]string{}}
	var cur *Contract
	sc := bufio.NewScanner(f)
	sc.Buffer(make([]byte, 1<<20), 1<<20)
	lineNo := 0
	pending := ""
	pendingLine := 0
	auto := 0
	for sc.Scan() {
		lineNo++
		line := strings.TrimSpace(sc.Text())
		var body string
		if strings.HasPrefix(line, "//@") {
			body = strings.TrimSpace(line[3:])
		} else if strings.HasPrefix(line, "// @") {
			body = strings.TrimSpace(line[4:])
		} else {
			continue
		}
		if i := strings.Index(body, " //"); i >= 0 && !strings.Contains(body[i:], `"`) {
			body = strings.TrimSpace(body[:i])
		}
		if pending != "" {
			body = pending + " " + body
		} else {
			pendingLine = lineNo
		}
		if strings.HasSuffix(body, `\`) {
			pending = strings.TrimSpace(strings.TrimSuffix(body, `\`))
			continue
		}
		pending = ""
		if body == "" {
			continue
		}
		word, rest := splitWord(body)
		switch word {
		case "func":
			cur = &Contract{Func: rest, Line: pendingLine, Invariants: map[int][]*Clause{}, Opts: map[string]string{}, CallSites: map[string][]*Clause{}}
			if _, dup := cf.Contracts[rest]; dup {
				return nil, fmt.Errorf("%s:%d: duplicate contract for %s", path, pendingLine, rest)
			}
			cf.Contracts[rest] = cur
			cf.Order = append(cf.Order, rest)
			continue
		case "lemma":
			name := "lemma:" + rest
			cur = &Contract{Func: name, Line: pendingLine, Invariants: map[int][]*Clause{}, Opts: map[string]string{}, CallSites: map[string][]*Clause{}}
			if _, dup := cf.Contracts[name]; dup {
				return nil, fmt.Errorf("%s:%d: duplicate lemma %s", path, pendingLine, rest)
			}
			cf.Contracts[name] = cur
			cf.Order = append(cf.Order, name)
			continue
		case "guarded":
			// guarded Container: webServices ServeMux by webServicesLock [when dynamicRoutes]
			g, err := parseGuard(rest)
			if err != nil {
				return nil, fmt.Errorf("%s:%d: %v", path, pendingLine, err)
			}
			cf.Guarded = append(cf.Guarded, g)
			continue
		case "typeinv":
			i := strings.Index(rest, ":")
			if i < 0 {
				return nil, fmt.Errorf("%s:%d: typeinv needs `Type: expr`", path, pendingLine)
			}
			hd := strings.Fields(rest[:i])
			tn := hd[0]
			if len(hd) > 2 && hd[1] == "mutable" {
				cf.TypeInvMutable[tn] = hd[2:]
			}
			cl := mkClause("typeinv", "inv: "+strings.TrimSpace(rest[i+1:]), pendingLine, &auto)
			cl.CallType = tn
			cf.TypeInvs[tn] = cl
			continue
		case "axiom":
			cl := mkClause("axiom", rest, pendingLine, &auto)
			cf.Axioms = append(cf.Axioms, cl)
			continue
		case "global":
			w2, r2 := splitWord(rest)
			if w2 != "invariant" {
				return nil, fmt.Errorf("%s:%d: expected `global invariant`", path, pendingLine)
			}
			cl := mkClause("global", r2, pendingLine, &auto)
			cf.Globals = append(cf.Globals, cl)
			continue
		}
		if cur == nil {
			return nil, fmt.Errorf("%s:%d: clause %q outside a func block", path, pendingLine, word)
		}
		switch word {
		case "props":
			cur.Props = strings.Fields(rest)
		case "implements":
			cur.Implements = rest
		case "trigger":
			cur.Triggers = append(cur.Triggers, mkClause("trigger", rest, pendingLine, &auto))
		case "uses":
			cur.Uses = append(cur.Uses, strings.Fields(rest)...)
		case "ghostinc":
			f := strings.Fields(rest)
			if len(f) != 2 {
				return nil, fmt.Errorf("%s:%d: ghostinc <name> <parameter>", path, pendingLine)
			}
			cur.GhostInc = append(cur.GhostInc, [2]string{f[0], f[1]})
		case "forall":
			cur.LemmaParams = rest
		case "induction":
			cur.Induction = rest
		case "requires":
			cur.Requires = append(cur.Requires, mkClause("requires", rest, pendingLine, &auto))
		case "ensures":
			cur.Ensures = append(cur.Ensures, mkClause("ensures", rest, pendingLine, &auto))
		case "signals":
			cur.Signals = append(cur.Signals, mkClause("signals", rest, pendingLine, &auto))
		case "modifies":
			cl := mkClause("modifies", rest, pendingLine, &auto)
			cur.Modifies = append(cur.Modifies, cl)
		case "loop":
			n, r2 := splitWord(rest)
			k, err := strconv.Atoi(n)
			if err != nil {
				return nil, fmt.Errorf("%s:%d: loop ordinal: %v", path, pendingLine, err)
			}
			w2, r3 := splitWord(r2)
			if w2 == "keeps" {
				if cur.LoopKeeps == nil {
					cur.LoopKeeps = map[int][]string{}
				}
				cur.LoopKeeps[k] = append(cur.LoopKeeps[k], strings.Fields(r3)...)
				continue
			}
			if w2 != "invariant" && w2 != "exit" {
				return nil, fmt.Errorf("%s:%d: expected `loop k invariant` or `loop k exit`", path, pendingLine)
			}
			cl := mkClause("invariant", r3, pendingLine, &auto)
			cl.Loop = k
			cl.Exit = w2 == "exit"
			cur.Invariants[k] = append(cur.Invariants[k], cl)
		case "callsite":
			// callsite <FuncTypeName> [label:] expr   (expr may mention callee, arg0..arg2 and locals)
			tn, r2 := splitWord(rest)
			cl := mkClause("callsite", r2, pendingLine, &auto)
			cl.CallType = tn
			cur.CallSites[tn] = append(cur.CallSites[tn], cl)
		case "nopanic":
			cur.NoPanic = true
		case "inline":
			cur.Inline = true
		case "pure":
			cur.Pure = true
		case "sweep":
			cur.Sweep = true
		case "trusted":
			cur.Trusted = rest
			if rest == "" {
				cur.Trusted = "assumed"
			}
		case "opt":
			k, v := splitWord(rest)
			cur.Opts[k] = v
		default:
			return nil, fmt.Errorf("%s:%d: unknown clause kind %q", path, pendingLine, word)
		}
	}
	return cf, sc.Err()
}

func parseGuard(s string) (GuardDecl, error) {
	// Container: webServices ServeMux isRegisteredOnRoot by webServicesLock [when dynamicRoutes]
	var g GuardDecl
	i := strings.Index(s, ":")
	if i < 0 {
		return g, fmt.Errorf("guarded: missing ':'")
	}
	g.Struct = strings.TrimSpace(s[:i])
	fs := strings.Fields(s[i+1:])
	state := 0
	for _, w := range fs {
		switch {
		case w == "by":
			state = 1
		case w == "when":
			state = 2
		case state == 0:
			g.Fields = append(g.Fields, w)
		case state == 1:
			g.Lock = w
		case state == 2:
			g.When = w
		}
	}
	if g.Lock == "" || len(g.Fields) == 0 {
		return g, fmt.Errorf("guarded: need fields and lock")
	}
	return g, nil
}

func splitWord(s string) (string, string) {
	s = strings.TrimSpace(s)
	i := strings.IndexAny(s, " \t")
	if i < 0 {
		return s, ""
	}
	return s[:i], strings.TrimSpace(s[i+1:])
}

var propsPrefixRe = regexp.MustCompile(`^\[([A-Z0-9 ,]+)\]\s*(.*)$`)

func mkClause(kind, rest string, line int, auto *int) *Clause {
	cl := &Clause{Kind: kind, Line: line}
	if m := propsPrefixRe.FindStringSubmatch(rest); m != nil {
		cl.Props = strings.FieldsFunc(m[1], func(r rune) bool { return r == ' ' || r == ',' })
		rest = m[2]
	}
	if m := labelRe.FindStringSubmatch(rest); m != nil && !strings.Contains(m[1], "(") {
		cl.Label = m[1]
		rest = m[2]
	} else {
		*auto++
		cl.Label = fmt.Sprintf("c%d", *auto)
	}
	cl.Src = rest
	cl.Expr = rewriteImplies(rest)
	cl.HasOld = strings.Contains(rest, "old(")
	return cl
}

// rewriteImplies turns `A ==> B` into `(!(A) || (B))`, at every parenthesis
// depth. `==>` binds weaker than every Go operator and associates to the right.
func rewriteImplies(s string) string {
	if !strings.Contains(s, "==>") && !strings.Contains(s, "<==>") {
		return s
	}
	// First rewrite inside every parenthesised / bracketed group.
	var out strings.Builder
	i := 0
	for i < len(s) {
		c := s[i]
		if c == '"' || c == '`' || c == '\'' {
			j := i + 1
			for j < len(s) && s[j] != c {
				if s[j] == '\\' && c != '`' {
					j++
				}
				j++
			}
			if j < len(s) {
				j++
			}
			out.WriteString(s[i:j])
			i = j
			continue
		}
		if c == '(' || c == '[' || c == '{' {
			close := matchClose(s, i)
			inner := rewriteImplies(s[i+1 : close])
			out.WriteByte(c)
			out.WriteString(inner)
			out.WriteByte(s[close])
			i = close + 1
			continue
		}
		out.WriteByte(c)
		i++
	}
	t := out.String()
	// Now split at top level: commas first (argument lists), then <==>, then ==>.
	parts := splitTop(t, ",")
	if len(parts) > 1 {
		for k := range parts {
			parts[k] = rewriteTop(parts[k])
		}
		return strings.Join(parts, ",")
	}
	return rewriteTop(t)
}

func rewriteTop(t string) string {
	// `return` / `;` never occur: clause expressions and lambda bodies are single
	// expressions, except func literals `func(k int) bool { return E }`.
	if idx := strings.Index(t, "return "); idx >= 0 && depthAt(t, idx) == 0 {
		return t[:idx+7] + rewriteTop(t[idx+7:])
	}
	if ps := splitTop(t, "<==>"); len(ps) == 2 {
		a, b := rewriteTop(ps[0]), rewriteTop(ps[1])
		return "((" + a + ") == (" + b + "))"
	}
	ps := splitTop(t, "==>")
	if len(ps) == 1 {
		return t
	}
	// right associative
	res := ps[len(ps)-1]
	for k := len(ps) - 2; k >= 0; k-- {
		res = "(!(" + strings.TrimSpace(ps[k]) + ") || (" + strings.TrimSpace(res) + "))"
	}
	return res
}

func depthAt(s string, pos int) int {
	d := 0
	for i := 0; i < pos && i < len(s); i++ {
		switch s[i] {
		case '(', '[', '{':
			d++
		case ')', ']', '}':
			d--
		}
	}
	return d
}

func matchClose(s string, i int) int {
	d := 0
	for j := i; j < len(s); j++ {
		switch s[j] {
		case '"', '`', '\'':
			c := s[j]
			j++
			for j < len(s) && s[j] != c {
				if s[j] == '\\' && c != '`' {
					j++
				}
				j++
			}
		case '(', '[', '{':
			d++
		case ')', ']', '}':
			d--
			if d == 0 {
				return j
			}
		}
	}
	return len(s) - 1
}

func splitTop(s, sep string) []string {
	var parts []string
	d := 0
	last := 0
	for i := 0; i < len(s); i++ {
		switch s[i] {
		case '"', '`', '\'':
			c := s[i]
			i++
			for i < len(s) && s[i] != c {
				if s[i] == '\\' && c != '`' {
					i++
				}
				i++
			}
		case '(', '[', '{':
			d++
		case ')', ']', '}':
			d--
		default:
			if d == 0 && strings.HasPrefix(s[i:], sep) {
				// do not split `<==>` when looking for `==>`
				if sep == "==>" && i > 0 && s[i-1] == '<' {
					continue
				}
				parts = append(parts, s[last:i])
				last = i + len(sep)
				i += len(sep) - 1
			}
		}
	}
	parts = append(parts, s[last:])
	return parts
}
