package main

// net/http.Header methods over the real representation map[string][]string
// (MIME-canonical keys). Canonicalisation of constant keys is computed with
// the real textproto function; symbolic keys go through an uninterpreted,
// idempotent `canon`.

import (
	"fmt"
	"go/token"
	"go/types"
	"net/textproto"
	"strconv"
	"strings"
)

func (vc *VC) headerMapType() *types.Map {
	for _, imp := range vc.L.Pkg.Imports() {
		if imp.Path() == "net/http" {
			return imp.Scope().Lookup("Header").Type().Underlying().(*types.Map)
		}
	}
	fail("net/http not imported")
	return nil
}

func (vc *VC) canonKey(k Term) Term {
	if strings.HasPrefix(k.S, "\"") && !strings.Contains(k.S, "\\u{") {
		if s, err := strconv.Unquote(strings.ReplaceAll(k.S, `""`, `\"`)); err == nil {
			return StrLit(textproto.CanonicalMIMEHeaderKey(s))
		}
	}
	vc.assumptions["model:textproto.CanonicalMIMEHeaderKey on symbolic keys (uninterpreted, idempotent)"] = true
	vc.Uninterp("hdr.canon", []Sort{SString}, SString,
		"(forall ((s String)) (! (= (hdr.canon (hdr.canon s)) (hdr.canon s)) :pattern ((hdr.canon s))))")
	return App(SString, "hdr.canon", k)
}

type hdrParts struct {
	name       string
	hs, ms     Sort
	ks, vs     Sort
	h, mv      Term
	dom, val   Term
	size       Term
}

func (vc *VC) hdrOpen(st *State, m Term) hdrParts {
	mt := vc.headerMapType()
	var p hdrParts
	p.name, p.hs, p.ms, p.ks, p.vs = vc.mapParts(mt)
	p.h = vc.heapFor(st, p.name, p.hs)
	p.mv = Sel(p.h, m, p.ms)
	p.dom = App(Sort("(Array "+string(p.ks)+" Bool)"), "mdom."+string(p.ms), p.mv)
	p.val = App(Sort("(Array "+string(p.ks)+" "+string(p.vs)+")"), "mval."+string(p.ms), p.mv)
	p.size = App(SInt, "msize."+string(p.ms), p.mv)
	return p
}

// hdrGet: first value for the canonical key, or "".
func (vc *VC) hdrGet(st *State, m, key Term) Term {
	vc.assumptions["model:net/http.Header Get/Set/Add/Del over map[string][]string with canonical keys"] = true
	p := vc.hdrOpen(st, m)
	ck := vc.canonKey(key)
	sl := Sel(p.val, ck, SSlice)
	if !st.pure && len(vc.defScopes) == 0 {
		// slices stored in maps refer to allocated arrays
		st.Assume(vc.wfValue(sl, types.NewSlice(types.Typ[types.String]), st))
	}
	has := And(Not(Eq(m, IntLit(0))), Sel(p.dom, ck, SBool), Lt(IntLit(0), SLen(sl)))
	_, hs, es := vc.typedHeap(st, types.Typ[types.String])
	first := Sel(Sel(hs, SArr(sl), RowSort(es)), SOff(sl), es)
	return vc.Define("hget", Ite(has, first, StrLit("")))
}

func (vc *VC) hdrFrame(fr *Frame, st *State, name string, m Term, pos token.Pos) {
	if vc.noFrame || vc.dry > 0 {
		return
	}
	vc.safeCount["frame"]++
	vc.Oblige("frame", "hdr#"+itoa(vc.safeCount["frame"]), pos, st, fr.mapFrameGoal(name, m), "header write outside the frame ("+name+")")
}

func (vc *VC) hdrSet(fr *Frame, st *State, m, key, value Term, pos token.Pos) {
	p := vc.hdrOpen(st, m)
	ck := vc.canonKey(key)
	vc.Safe("nilmap", pos, st, Not(Eq(m, IntLit(0))), "assignment to entry in nil map (Header.Set)")
	st.Assume(Not(Eq(m, IntLit(0))))
	vc.hdrFrame(fr, st, p.name, m, pos)
	id := vc.newObject(st)
	sname, hs, es := vc.typedHeap(st, types.Typ[types.String])
	row := Sel(hs, id, RowSort(es))
	st.heaps[sname] = vc.Define(sname, Sto(hs, id, Sto(row, IntLit(0), value)))
	sl := MkSlice(id, IntLit(0), IntLit(1), IntLit(1))
	nsize := Ite(Sel(p.dom, ck, SBool), p.size, Add(p.size, IntLit(1)))
	nmv := App(p.ms, "mk."+string(p.ms), Sto(p.dom, ck, True), Sto(p.val, ck, sl), nsize)
	st.heaps[p.name] = vc.Define(p.name, Sto(p.h, m, nmv))
}

// hdrAdd: append value to the list of the canonical key (fresh backing array).
func (vc *VC) hdrAdd(fr *Frame, st *State, m, key, value Term, pos token.Pos) {
	p := vc.hdrOpen(st, m)
	ck := vc.canonKey(key)
	vc.Safe("nilmap", pos, st, Not(Eq(m, IntLit(0))), "assignment to entry in nil map (Header.Add)")
	st.Assume(Not(Eq(m, IntLit(0))))
	vc.hdrFrame(fr, st, p.name, m, pos)
	old := Ite(Sel(p.dom, ck, SBool), Sel(p.val, ck, SSlice), vc.ss.Zero(SSlice))
	old = vc.Define("hold", old)
	id := vc.newObject(st)
	sname, hs, es := vc.typedHeap(st, types.Typ[types.String])
	row := vc.Fresh("row.hadd", RowSort(es))
	oldRow := Sel(hs, SArr(old), RowSort(es))
	vc.fresh++
	j := fmt.Sprintf("j!%d", vc.fresh)
	st.Assume(T(SBool, "(forall ((%s Int)) (! (=> (and (<= 0 %s) (< %s %s)) (= (select %s %s) (select %s (+ %s %s)))) :pattern ((select %s %s))))",
		j, j, j, SLen(old).S, row.S, j, oldRow.S, SOff(old).S, j, row.S, j))
	st.Assume(Eq(Sel(row, SLen(old), es), value))
	st.heaps[sname] = vc.Define(sname, Sto(hs, id, row))
	n := Add(SLen(old), IntLit(1))
	sl := MkSlice(id, IntLit(0), n, n)
	nsize := Ite(Sel(p.dom, ck, SBool), p.size, Add(p.size, IntLit(1)))
	nmv := App(p.ms, "mk."+string(p.ms), Sto(p.dom, ck, True), Sto(p.val, ck, sl), nsize)
	st.heaps[p.name] = vc.Define(p.name, Sto(p.h, m, nmv))
}

func init() {
	hget := func(fr *Frame, a []Val, st *State, pos token.Pos) (Val, *State) {
		return TV(fr.vc.hdrGet(st, a[0].T, a[1].T)), st
	}
	hset := func(fr *Frame, a []Val, st *State, pos token.Pos) (Val, *State) {
		fr.vc.hdrSet(fr, st, a[0].T, a[1].T, a[2].T, pos)
		return Val{}, st
	}
	hadd := func(fr *Frame, a []Val, st *State, pos token.Pos) (Val, *State) {
		fr.vc.hdrAdd(fr, st, a[0].T, a[1].T, a[2].T, pos)
		return Val{}, st
	}
	hdel := func(fr *Frame, a []Val, st *State, pos token.Pos) (Val, *State) {
		vc := fr.vc
		p := vc.hdrOpen(st, a[0].T)
		ck := vc.canonKey(a[1].T)
		// delete on a nil map is a no-op
		vc.hdrFrame(fr, st, p.name, a[0].T, pos)
		nsize := Ite(Sel(p.dom, ck, SBool), Sub(p.size, IntLit(1)), p.size)
		nmv := App(p.ms, "mk."+string(p.ms), Sto(p.dom, ck, False), p.val, nsize)
		st.heaps[p.name] = vc.Define(p.name, Ite(Eq(a[0].T, IntLit(0)), p.h, Sto(p.h, a[0].T, nmv)))
		return Val{}, st
	}
	extraModels = map[string]modelFn{
		"(net/http.Header).Del": hdel,
		"net/textproto.CanonicalMIMEHeaderKey": func(fr *Frame, a []Val, st *State, pos token.Pos) (Val, *State) {
			return TV(fr.vc.canonKey(a[0].T)), st
		},
		"(net/http.Header).Get": hget,
		"(net/http.Header).Set": hset,
		"(net/http.Header).Add": hadd,
	}
}

var extraModels map[string]modelFn

// heaps read by modelled externals when called from spec functions
func (vc *VC) modelReadHeaps(full string) map[string]Sort {
	switch full {
	case "(net/http.Header).Get":
		n, s := vc.mapHeap(vc.headerMapType())
		return map[string]Sort{n: s, vc.ss.HeapName(types.Typ[types.String]): HeapSort(SString)}
	}
	return nil
}
