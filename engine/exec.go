package main

// Forward symbolic execution of go/ssa (naive form) functions.
// Loops are cut at their headers with invariants; joins define fresh
// constants by ite over the incoming edge conditions.

import (
	"fmt"
	"go/token"
	"go/types"
	"sort"

	"golang.org/x/tools/go/ssa"
)

// Cell is a register-like local variable (an Alloc whose address does not escape).
type Cell struct {
	Name string
	Type types.Type
	Sort Sort
	id   int
}

type Loc struct {
	Slice *Term // element of this slice ...
	Index *Term // ... at this index (loads go through the elem.* function)
	Cell *Cell
	Ptr  Term // heap pointer when Cell == nil
	Path []int
	Type types.Type // Go type of the located value
	Root types.Type // Go type of the root object (cell type / pointee type)
}

type Val struct {
	T     Term
	Tuple []Val
	Loc   *Loc
	Clo   *Closure
	IsT   bool
}

type Closure struct {
	Fn       *ssa.Function
	Bindings []Val
}

func TV(t Term) Val { return Val{T: t, IsT: true} }

type State struct {
	invSeen map[string]bool  // representation invariants already assumed (ptr|heap version)
	dirty   map[string]dirtyObj // objects with a representation invariant written by this activation
	pure  bool // assumptions are ignored (spec evaluation)
	reach Term
	cells map[*Cell]Term
	heaps map[string]Term
	armed map[*ssa.Defer]Term
}

func (s *State) Clone() *State {
	n := &State{pure: s.pure, reach: s.reach, invSeen: s.invSeen, dirty: s.dirty, cells: make(map[*Cell]Term, len(s.cells)), heaps: make(map[string]Term, len(s.heaps)), armed: make(map[*ssa.Defer]Term, len(s.armed))}
	for k, v := range s.cells {
		n.cells[k] = v
	}
	for k, v := range s.heaps {
		n.heaps[k] = v
	}
	for k, v := range s.armed {
		n.armed[k] = v
	}
	return n
}

func (s *State) Assume(t Term) {
	if s.pure {
		return
	}
	s.reach = And(s.reach, t)
}

// Branch restricts the path condition (also in pure evaluation).
func (s *State) Branch(t Term) { s.reach = And(s.reach, t) }

type Frame struct {
	curBlock *ssa.BasicBlock // block being executed (call-site clauses use it to find the enclosing range loop)
	rangeMap map[*ssa.Range]string // map value term at the start of a range over a string-keyed map
	vc       *VC
	fn       *ssa.Function
	vals     map[ssa.Value]Val
	cellOf   map[*ssa.Alloc]*Cell
	free     map[*ssa.FreeVar]Val // bindings of an inlined closure's free variables
	parent   *Frame
	pure     bool
	oldVals  map[ssa.Value]Val // for clause evaluation: values in the pre-state
	preState *State // clause evaluation: the pre-state (for ghostIntAtEntry)
	quantRec map[ssa.Instruction]*quantRecT // quantifier bodies evaluated in this frame
	oldQuant map[ssa.Instruction]*quantRecT // the same, from the pre-state evaluation
	loops    []*loopInfo
	loopOf   map[*ssa.BasicBlock]*loopInfo
	rets     []retState
	panics   []panicState
	escaped  []panicState // exceptional exits whose deferred calls have already run
	deferArgs map[*ssa.Defer]*ssa.Defer
	depth    int
	namedResults []*ssa.Alloc
	callSite string
	cloCells map[*ssa.Alloc]*Closure // locals holding a function literal that is only called
	inPanicDefers bool
}

type dirtyObj struct {
	typ string
	ptr Term
}

type quantRecT struct {
	bv   Term
	vals map[ssa.Value]Val
	sub  map[ssa.Instruction]*quantRecT
}

type retState struct {
	st      *State
	results []Val
	pos     token.Pos
}
type panicState struct {
	st  *State
	val Term // Iface
	why string
}

type loopInfo struct {
	header  *ssa.BasicBlock
	blocks  map[*ssa.BasicBlock]bool
	ordinal int
	rangeIdx *ssa.Alloc
	rangeLen ssa.Value
}

type edge struct {
	to *ssa.BasicBlock // nil = function return (handled via frame.rets)
	from *ssa.BasicBlock
	st *State
}

func (vc *VC) newFrame(fn *ssa.Function, parent *Frame) *Frame {
	fr := &Frame{vc: vc, fn: fn, vals: map[ssa.Value]Val{}, cellOf: map[*ssa.Alloc]*Cell{}, free: map[*ssa.FreeVar]Val{}, parent: parent}
	if parent != nil {
		fr.depth = parent.depth + 1
		fr.pure = parent.pure
		fr.preState = parent.preState
	}
	if fr.depth > 12 {
		fail("inlining depth exceeded at %s", relFuncName(fn))
	}
	fr.findLoops()
	return fr
}

// findLoops computes natural loops; ordinals follow header block order (= source order).
func (fr *Frame) findLoops() {
	fn := fr.fn
	fr.loopOf = map[*ssa.BasicBlock]*loopInfo{}
	headers := map[*ssa.BasicBlock]*loopInfo{}
	for _, b := range fn.Blocks {
		for _, s := range b.Succs {
			if s.Dominates(b) { // back edge b -> s
				li := headers[s]
				if li == nil {
					li = &loopInfo{header: s, blocks: map[*ssa.BasicBlock]bool{s: true}}
					headers[s] = li
				}
				// natural loop: nodes that reach b without passing s
				var stack []*ssa.BasicBlock
				if !li.blocks[b] {
					li.blocks[b] = true
					stack = append(stack, b)
				}
				for len(stack) > 0 {
					x := stack[len(stack)-1]
					stack = stack[:len(stack)-1]
					for _, p := range x.Preds {
						if !li.blocks[p] {
							li.blocks[p] = true
							stack = append(stack, p)
						}
					}
				}
			}
		}
	}
	var hs []*ssa.BasicBlock
	for h := range headers {
		hs = append(hs, h)
	}
	sort.Slice(hs, func(i, j int) bool { return hs[i].Index < hs[j].Index })
	for i, h := range hs {
		li := headers[h]
		li.ordinal = i
		fr.loops = append(fr.loops, li)
		fr.loopOf[h] = li
		// range-over-slice pattern
		if len(h.Instrs) >= 4 {
			if ld, ok := h.Instrs[0].(*ssa.UnOp); ok && ld.Op == token.MUL {
				if al, ok := ld.X.(*ssa.Alloc); ok && al.Comment == "rangeindex" {
					li.rangeIdx = al
					if iff, ok := h.Instrs[len(h.Instrs)-1].(*ssa.If); ok {
						if cmp, ok := iff.Cond.(*ssa.BinOp); ok && cmp.Op == token.LSS {
							li.rangeLen = cmp.Y
						}
					}
				}
			}
		}
	}
}

// rpo returns the blocks of region in reverse post-order starting at entry,
// ignoring edges back to entry and edges leaving the region.
func rpo(entry *ssa.BasicBlock, region map[*ssa.BasicBlock]bool) []*ssa.BasicBlock {
	seen := map[*ssa.BasicBlock]bool{}
	var post []*ssa.BasicBlock
	var dfs func(b *ssa.BasicBlock)
	dfs = func(b *ssa.BasicBlock) {
		seen[b] = true
		for _, s := range b.Succs {
			if s == entry || (region != nil && !region[s]) || seen[s] {
				continue
			}
			if s.Dominates(b) {
				continue // back edge of an inner loop
			}
			dfs(s)
		}
		post = append(post, b)
	}
	dfs(entry)
	for i, j := 0, len(post)-1; i < j; i, j = i+1, j-1 {
		post[i], post[j] = post[j], post[i]
	}
	return post
}

// mergeStates joins states; values that differ get a fresh definitional constant.
func (vc *VC) mergeStates(sts []*State, hint string) *State {
	if len(sts) == 0 {
		return nil
	}
	if len(sts) == 1 {
		return sts[0]
	}
	out := &State{pure: sts[0].pure, cells: map[*Cell]Term{}, heaps: map[string]Term{}, armed: map[*ssa.Defer]Term{}}
	conds := make([]Term, len(sts))
	var rs []Term
	for i, s := range sts {
		conds[i] = vc.DefineAlways("e."+hint, s.reach)
		rs = append(rs, conds[i])
	}
	for _, s := range sts {
		for k, d := range s.dirty {
			if out.dirty == nil {
				out.dirty = map[string]dirtyObj{}
			}
			out.dirty[k] = d
		}
	}
	out.reach = vc.DefineAlways("r."+hint, Or(rs...))
	if isAtom(out.reach.S) {
		var names []string
		for _, c := range conds {
			names = append(names, c.S)
		}
		vc.merges[out.reach.S] = names
	}
	merge := func(get func(s *State) (Term, bool), name string) (Term, bool) {
		var first Term
		same := true
		any := false
		for _, s := range sts {
			t, ok := get(s)
			if !ok {
				continue
			}
			if !any {
				first = t
				any = true
			} else if t.S != first.S {
				same = false
			}
		}
		if !any {
			return Term{}, false
		}
		if same {
			return first, true
		}
		// ite chain
		var acc Term
		started := false
		for i := len(sts) - 1; i >= 0; i-- {
			t, ok := get(sts[i])
			if !ok {
				continue
			}
			if !started {
				acc = t
				started = true
			} else {
				acc = Ite(conds[i], t, acc)
			}
		}
		return vc.Define(name, acc), true
	}
	cellKeys := map[*Cell]bool{}
	heapKeys := map[string]bool{}
	armKeys := map[*ssa.Defer]bool{}
	for _, s := range sts {
		for k := range s.cells {
			cellKeys[k] = true
		}
		for k := range s.heaps {
			heapKeys[k] = true
		}
		for k := range s.armed {
			armKeys[k] = true
		}
	}
	var cks []*Cell
	for k := range cellKeys {
		cks = append(cks, k)
	}
	sort.Slice(cks, func(i, j int) bool { return cks[i].id < cks[j].id })
	for _, k := range cks {
		k := k
		if t, ok := merge(func(s *State) (Term, bool) { t, ok := s.cells[k]; return t, ok }, k.Name); ok {
			out.cells[k] = t
		}
	}
	for _, k := range sortedKeysT(heapKeys) {
		k := k
		if t, ok := merge(func(s *State) (Term, bool) {
			t, ok := s.heaps[k]
			if !ok {
				// never touched on this path: still the entry value
				t, ok = vc.entryHeaps[k]
			}
			return t, ok
		}, k); ok {
			out.heaps[k] = t
		}
	}
	for k := range armKeys {
		k := k
		if t, ok := merge(func(s *State) (Term, bool) {
			t, ok := s.armed[k]
			if !ok {
				return False, true
			}
			return t, true
		}, "armed"); ok {
			out.armed[k] = t
		}
	}
	return out
}

func sortedKeysT(m map[string]bool) []string {
	out := make([]string, 0, len(m))
	for k := range m {
		out = append(out, k)
	}
	sort.Strings(out)
	return out
}

// execRegion executes the blocks of region (nil = whole function) from entry
// with state st. Edges that leave the region, or return to entry, are returned.
func (fr *Frame) execRegion(entry *ssa.BasicBlock, region map[*ssa.BasicBlock]bool, st *State) []edge {
	vc := fr.vc
	order := rpo(entry, region)
	for _, b := range order {
		for _, ins := range b.Instrs {
			if phi, ok := ins.(*ssa.Phi); ok {
				delete(fr.vals, phi)
			} else {
				break
			}
		}
	}
	in := map[*ssa.BasicBlock][]*State{entry: {st}}
	var out []edge
	deliver := func(from, to *ssa.BasicBlock, s *State) {
		if s.reach.S == "false" {
			return
		}
		if to == entry || (region != nil && !region[to]) {
			out = append(out, edge{to: to, from: from, st: s})
			return
		}
		in[to] = append(in[to], s)
	}
	for _, b := range order {
		sts := in[b]
		if len(sts) == 0 {
			continue
		}
		cur := vc.mergeStates(sts, fmt.Sprintf("b%d", b.Index))
		if len(sts) > 1 {
			cur = cur.Clone()
		}
		fr.bindPhis(b, sts, in, cur)
		// `loop k exit` clauses: a cut point at the block behind loop k, where its normal exit and its
		// `break` paths join — proved there, then assumed
		for _, li := range fr.loopsDoneAt(b) {
			for _, xc := range fr.invariantsFor(li) {
				if !xc.Exit {
					continue
				}
				if len(sts) == 1 {
					cur = cur.Clone()
				}
				g := fr.evalClause(xc, cur, nil, li)
				var pos token.Pos
				if len(b.Instrs) > 0 {
					pos = b.Instrs[0].Pos()
				}
				vc.Oblige("loop-exit", fmt.Sprintf("loop%d.%s", li.ordinal, xc.Label), pos, cur, g, xc.Src)
				cur.Assume(g)
			}
		}
		if li := fr.loopOf[b]; li != nil && b != entry {
			// inner loop: cut it
			exits := fr.execLoop(li, cur)
			for _, e := range exits {
				deliver(e.from, e.to, e.st)
			}
			continue
		}
		fr.execBlock(b, cur, deliver)
	}
	return out
}

// predecessor bookkeeping for phis: we need to know from which pred each state came.
// In naive form phis only arise from && and ||; we recompute them from edge
// reach conditions recorded at delivery time.
type phiEdge struct {
	pred *ssa.BasicBlock
	st   *State
}

func (fr *Frame) bindPhis(b *ssa.BasicBlock, sts []*State, in map[*ssa.BasicBlock][]*State, cur *State) {
	// handled in execBlock through fr.phiIn
}

// execLoop handles a loop whose header is li.header, entered with state st.
func (fr *Frame) execLoop(li *loopInfo, st *State) []edge {
	vc := fr.vc
	h := li.header
	var invs []*Clause
	for _, c := range fr.invariantsFor(li) {
		if !c.Exit {
			invs = append(invs, c)
		}
	}
	// 1. invariants hold on entry
	for _, inv := range invs {
		g := fr.evalClause(inv, st, nil, li)
		vc.Oblige("inv-init", fmt.Sprintf("loop%d.%s", li.ordinal, inv.Label), h.Instrs[0].Pos(), st, g, inv.Src)
	}
	// 2. dry run to discover what the loop modifies
	vc.dry++
	dryDecls := len(vc.decls)
	_ = dryDecls
	savedRets, savedPanics := len(fr.rets), len(fr.panics)
	probe := st.Clone()
	backs := fr.execRegion(h, li.blocks, probe)
	fr.rets, fr.panics = fr.rets[:savedRets], fr.panics[:savedPanics]
	vc.dry--
	modCells := map[*Cell]bool{}
	modHeaps := map[string]bool{}
	for _, e := range backs {
		if e.to != h {
			continue
		}
		for k, v := range e.st.cells {
			if old, ok := st.cells[k]; ok && old.S != v.S {
				modCells[k] = true
			}
		}
		for k, v := range e.st.heaps {
			old, ok := st.heaps[k]
			if !ok {
				old, ok = vc.entryHeaps[k]
			}
			if !ok || old.S != v.S {
				modHeaps[k] = true
			}
		}
	}
	// 3. havoc and assume invariants
	hs := st.Clone()
	var cks []*Cell
	for k := range modCells {
		cks = append(cks, k)
	}
	sort.Slice(cks, func(i, j int) bool { return cks[i].id < cks[j].id })
	for _, k := range cks {
		hs.cells[k] = vc.Fresh("l."+k.Name, k.Sort)
		if wf := vc.wfValue(hs.cells[k], k.Type, hs); wf.S != "true" {
			hs.Assume(wf)
		}
	}
	for _, k := range sortedKeysT(modHeaps) {
		old, had := st.heaps[k]
		sortK := vc.heapSorts[k]
		nh := vc.Fresh("l."+k, sortK)
		hs.heaps[k] = nh
		if had {
			vc.loopFrame(hs, k, old, nh)
		}
	}
	if li.rangeIdx != nil {
		c := fr.cellOf[li.rangeIdx]
		if c != nil {
			ri := hs.cells[c]
			n := fr.val(li.rangeLen).T
			hs.Assume(And(Le(IntLit(-1), ri), Lt(ri, n)))
		}
	}
	// `loop k keeps H_T`: the arrays of H_T that existed at loop entry are unchanged (assumed here, proved below)
	type kept struct {
		heap     string
		old, lim Term
	}
	var keeps []kept
	if fr.parent == nil && vc.ct != nil && fr.fn == vc.fn {
		for _, k := range vc.ct.LoopKeeps[li.ordinal] {
			old, had := st.heaps[k]
			if !had {
				if e, ok := vc.entryHeaps[k]; ok {
					old, had = e, true
				}
			}
			if !had || !modHeaps[k] {
				continue
			}
			kp := kept{k, old, vc.allocTerm(st)}
			keeps = append(keeps, kp)
			hs.Assume(T(SBool, "(forall ((a!k Int)) (! (=> (< a!k %s) (= (select %s a!k) (select %s a!k))) :pattern ((select %s a!k))))", kp.lim.S, hs.heaps[k].S, old.S, hs.heaps[k].S))
		}
	}
	for _, inv := range invs {
		hs.Assume(fr.evalClause(inv, hs, nil, li))
	}
	hs.reach = vc.Define("r.loop", hs.reach)
	// 4. real run of one arbitrary iteration
	edges := fr.execRegion(h, li.blocks, hs)
	var exits []edge
	for _, e := range edges {
		if e.to == h {
			for _, inv := range invs {
				g := fr.evalClause(inv, e.st, nil, li)
				vc.Oblige("inv-step", fmt.Sprintf("loop%d.%s", li.ordinal, inv.Label), lastPos(e.from), e.st, g, inv.Src)
			}
			for _, kp := range keeps {
				cur, ok := e.st.heaps[kp.heap]
				if !ok {
					continue
				}
				g := T(SBool, "(forall ((a!k Int)) (=> (< a!k %s) (= (select %s a!k) (select %s a!k))))", kp.lim.S, cur.S, kp.old.S)
				vc.Oblige("inv-step", fmt.Sprintf("loop%d.keeps.%s", li.ordinal, kp.heap), lastPos(e.from), e.st, g, "loop keeps "+kp.heap)
			}
			continue
		}
		exits = append(exits, e)
	}
	return exits
}

// loopsDoneAt: the loops whose done block is b (the successor of the loop header outside the loop;
// go/ssa sends `break` there as well).
func (fr *Frame) loopsDoneAt(b *ssa.BasicBlock) []*loopInfo {
	var out []*loopInfo
	for h, li := range fr.loopOf {
		for _, s := range h.Succs {
			if s == b && !li.blocks[s] {
				out = append(out, li)
			}
		}
	}
	return out
}

func lastPos(b *ssa.BasicBlock) token.Pos {
	if b == nil {
		return token.NoPos
	}
	for i := len(b.Instrs) - 1; i >= 0; i-- {
		if p := b.Instrs[i].Pos(); p.IsValid() {
			return p
		}
	}
	return token.NoPos
}

func (fr *Frame) invariantsFor(li *loopInfo) []*Clause {
	if fr.parent != nil || fr.vc.ct == nil || fr.fn != fr.vc.fn {
		// loops of inlined functions: look up that function's own contract
		if ct := fr.vc.L.CF.Contracts[relFuncName(fr.fn)]; ct != nil {
			return ct.Invariants[li.ordinal]
		}
		return nil
	}
	return fr.vc.ct.Invariants[li.ordinal]
}

// execBlock runs the instructions of b; deliver is called for each outgoing edge.
func (fr *Frame) execBlock(b *ssa.BasicBlock, st *State, deliver func(from, to *ssa.BasicBlock, s *State)) {
	fr.curBlock = b
	for _, ins := range b.Instrs {
		switch x := ins.(type) {
		case *ssa.If:
			c := fr.val(x.Cond).T
			c = fr.vc.Define("c", c)
			t := st.Clone()
			t.Branch(c)
			e := st.Clone()
			e.Branch(Not(c))
			fr.notePhi(b, b.Succs[0], t)
			fr.notePhi(b, b.Succs[1], e)
			deliver(b, b.Succs[0], t)
			deliver(b, b.Succs[1], e)
			return
		case *ssa.Jump:
			fr.notePhi(b, b.Succs[0], st)
			deliver(b, b.Succs[0], st)
			return
		case *ssa.Return:
			var rs []Val
			for _, r := range x.Results {
				rs = append(rs, fr.val(r))
			}
			if fr.vc.dry == 0 || fr.parent != nil {
				fr.rets = append(fr.rets, retState{st, rs, x.Pos()})
			}
			return
		case *ssa.Panic:
			fr.execPanic(x, st)
			return
		default:
			st = fr.execInstr(ins, st)
			if st == nil || st.reach.S == "false" {
				return
			}
		}
	}
}

// phi support: remember the reach condition of each (pred -> succ) edge.
type phiKey struct{ from, to *ssa.BasicBlock }

var _ = phiKey{}

func (fr *Frame) notePhi(from, to *ssa.BasicBlock, st *State) {
	for _, ins := range to.Instrs {
		phi, ok := ins.(*ssa.Phi)
		if !ok {
			break
		}
		// index of from in to.Preds
		for i, p := range to.Preds {
			if p == from {
				v := fr.val(phi.Edges[i])
				prev, has := fr.vals[phi]
				if !has {
					fr.vals[phi] = v
				} else {
					fr.vals[phi] = TV(fr.vc.Define("phi", Ite(st.reach, v.T, prev.T)))
				}
			}
		}
	}
}
