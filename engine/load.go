package main

// Loading: /repo's working tree + spec/model overlays + generated clause
// functions -> type-checked package -> SSA (NaiveForm).

import (
	"fmt"
	"regexp"
	"go/ast"
	"go/parser"
	"go/printer"
	"go/token"
	"go/types"
	"os"
	"path/filepath"
	"sort"
	"strings"

	"golang.org/x/tools/go/packages"
	"golang.org/x/tools/go/ssa"
	"golang.org/x/tools/go/ssa/ssautil"
)

const pkgPath = "github.com/emicklei/go-restful/v3"

type Loaded struct {
	funcVarCache map[*ssa.Global]*ssa.Function
	Fset      *token.FileSet
	Pkg       *types.Package
	Info      *types.Info
	Files     []*ast.File
	SSA       *ssa.Package
	Prog      *ssa.Program
	CF        *ContractFile
	SpecFiles map[string]bool // overlay file names that hold spec/model functions
	RepoDir   string
	GenSrc    string
	funcsByName map[string]*ssa.Function
	Opaque    map[string]bool
	importer  types.Importer
}

func relFuncName(fn *ssa.Function) string {
	s := fn.String()
	s = strings.ReplaceAll(s, pkgPath+".", "")
	return s
}

var ghostHasRe = regexp.MustCompile(`ghostHas\("([^"]+)"`)
var ghostIfaceRe = regexp.MustCompile(`ghostIface\("([^"]+)"`)

type importerFunc func(path string) (*types.Package, error)

func (f importerFunc) Import(path string) (*types.Package, error) { return f(path) }

func Load(repoDir, verifDir string) (*Loaded, error) {
	env := append(os.Environ(), "GOFLAGS=-mod=mod", "GOPROXY=off", "GOSUMDB=off", "GOTOOLCHAIN=local")
	overlay := map[string][]byte{}
	specFiles := map[string]bool{}
	for _, sub := range []string{"spec", "models"} {
		ms, _ := filepath.Glob(filepath.Join(verifDir, sub, "*.go"))
		sort.Strings(ms)
		for _, m := range ms {
			b, err := os.ReadFile(m)
			if err != nil {
				return nil, err
			}
			name := filepath.Join(repoDir, "zz_verif_"+sub+"_"+filepath.Base(m))
			overlay[name] = b
			for _, mm := range ghostIfaceRe.FindAllStringSubmatch(string(b), -1) {
				ifaceGhosts[mm[1]] = true
			}
			for _, mm := range ghostHasRe.FindAllStringSubmatch(string(b), -1) {
				setGhosts[mm[1]] = true
			}
			specFiles[name] = true
		}
	}
	cfg := &packages.Config{
		Mode: packages.NeedName | packages.NeedFiles | packages.NeedCompiledGoFiles | packages.NeedImports |
			packages.NeedDeps | packages.NeedTypes | packages.NeedSyntax | packages.NeedTypesInfo | packages.NeedTypesSizes,
		Dir:        repoDir,
		BuildFlags: []string{"-tags=verif"},
		Overlay:    overlay,
		Env:        env,
	}
	pkgs, err := packages.Load(cfg, ".")
	if err != nil {
		return nil, err
	}
	if len(pkgs) != 1 {
		return nil, fmt.Errorf("expected one package, got %d", len(pkgs))
	}
	root := pkgs[0]
	if len(root.Errors) > 0 {
		var msgs []string
		for _, e := range root.Errors {
			msgs = append(msgs, e.Error())
		}
		return nil, fmt.Errorf("package does not type-check:\n%s", strings.Join(msgs, "\n"))
	}
	cf, err := ParseContracts(filepath.Join(repoDir, "verif_contracts.go"))
	if err != nil {
		return nil, err
	}
	if cyc := lemmaCycle(cf); cyc != "" {
		// a lemma that (transitively) uses itself would be assumed in its own proof
		return nil, fmt.Errorf("verif_contracts.go: circular use of lemmas: %s", cyc)
	}
	L := &Loaded{Fset: root.Fset, CF: cf, SpecFiles: specFiles, RepoDir: repoDir, Opaque: map[string]bool{}}
	for _, f := range root.Syntax {
		if !specFiles[root.Fset.Position(f.Pos()).Filename] {
			continue
		}
		for _, d := range f.Decls {
			if fd, ok := d.(*ast.FuncDecl); ok && fd.Doc != nil {
				for _, c := range fd.Doc.List {
					if strings.Contains(c.Text, "govc:opaque") {
						L.Opaque[fd.Name.Name] = true
					}
				}
			}
		}
	}

	// all transitively imported type packages
	depTypes := map[string]*types.Package{}
	packages.Visit(pkgs, nil, func(p *packages.Package) {
		if p.Types != nil {
			depTypes[p.PkgPath] = p.Types
		}
	})

	L.importer = importerFunc(func(path string) (*types.Package, error) {
		if p, ok := depTypes[path]; ok {
			return p, nil
		}
		return nil, fmt.Errorf("import %q not loaded", path)
	})
	// generate clause functions against the first type-check; clauses that no
	// longer type-check against the code (contract drift) are dropped and reported
	var spkg *ssa.Package
	var info *types.Info
	var tpkg *types.Package
	var files []*ast.File
	var gen string
	genName := filepath.Join(repoDir, "zz_verif_clauses.go")
	dropped := map[string]bool{}
	for attempt := 0; ; attempt++ {
		var err error
		gen, err = generateClauses(L, root, cf, dropped)
		if err != nil {
			return nil, err
		}
		L.GenSrc = gen
		fset2 := root.Fset
		genFile, err := parser.ParseFile(fset2, genName, gen, parser.ParseComments)
		if err != nil {
			return nil, fmt.Errorf("generated clause file does not parse: %v\n%s", err, numbered(gen))
		}
		files = append([]*ast.File{}, root.Syntax...)
		files = append(files, genFile)
		var tcErrs []string
		tc := &types.Config{
			Importer: L.importer,
			Error:    func(err error) { tcErrs = append(tcErrs, err.Error()) },
			Sizes:    root.TypesSizes,
		}
		tpkg = types.NewPackage(pkgPath, "restful")
		spkg, info, err = ssautil.BuildPackage(tc, fset2, tpkg, files, ssa.NaiveForm|ssa.GlobalDebug|ssa.InstantiateGenerics)
		if err == nil && len(tcErrs) == 0 {
			break
		}
		// which clause functions are broken?
		bad := badClauses(tcErrs, gen, genName)
		if len(bad) == 0 || attempt >= 6 {
			return nil, fmt.Errorf("contracts do not type-check:\n%s", explainGenErrors(tcErrs, gen, genName, cf))
		}
		progress := false
		for fnName, why := range bad {
			if !dropped[fnName] {
				dropped[fnName] = true
				progress = true
				noteDrift(cf, fnName, why)
			}
		}
		if !progress {
			return nil, fmt.Errorf("contracts do not type-check:\n%s", explainGenErrors(tcErrs, gen, genName, cf))
		}
	}
	L.Pkg = tpkg
	L.Info = info
	L.Files = files
	L.SSA = spkg
	L.Prog = spkg.Prog
	L.funcsByName = map[string]*ssa.Function{}
	for fn := range ssautil.AllFunctions(spkg.Prog) {
		if fn.Pkg == spkg || (fn.Parent() != nil && fn.Parent().Pkg == spkg) {
			L.funcsByName[relFuncName(fn)] = fn
		}
	}
	// methods are only in AllFunctions if reachable; add all declared ones
	for _, mem := range spkg.Members {
		switch m := mem.(type) {
		case *ssa.Function:
			L.addFuncTree(m)
		case *ssa.Type:
			for _, t := range []types.Type{m.Type(), types.NewPointer(m.Type())} {
				ms := spkg.Prog.MethodSets.MethodSet(t)
				for i := 0; i < ms.Len(); i++ {
					if f := spkg.Prog.MethodValue(ms.At(i)); f != nil && f.Pkg == spkg && f.Synthetic == "" {
						L.addFuncTree(f)
					}
				}
			}
		}
	}
	return L, nil
}

func (L *Loaded) addFuncTree(f *ssa.Function) {
	L.funcsByName[relFuncName(f)] = f
	for _, a := range f.AnonFuncs {
		L.addFuncTree(a)
	}
}

func (L *Loaded) Func(name string) *ssa.Function { return L.funcsByName[name] }

func (L *Loaded) IsSpecFunc(fn *ssa.Function) bool {
	if fn == nil {
		return false
	}
	root := fn
	for root.Parent() != nil {
		root = root.Parent()
	}
	if root.Origin() != nil {
		root = root.Origin()
	}
	pos := root.Pos()
	if !pos.IsValid() {
		return false
	}
	name := L.Fset.Position(pos).Filename
	return L.SpecFiles[name] || strings.HasSuffix(name, "zz_verif_clauses.go")
}

// badClauses maps type-check errors in the generated file to the clause functions they are in.
func badClauses(errs []string, gen, genName string) map[string]string {
	lines := strings.Split(gen, "\n")
	out := map[string]string{}
	for _, e := range errs {
		if !strings.HasPrefix(e, genName+":") {
			continue
		}
		var ln int
		fmt.Sscanf(e[len(genName)+1:], "%d", &ln)
		for k := ln - 1; k >= 0 && k > ln-6; k-- {
			if k < len(lines) && strings.HasPrefix(lines[k], "func verif_cl_") {
				name := lines[k][5:]
				if i := strings.Index(name, "("); i >= 0 {
					name = name[:i]
				}
				out[name] = e[len(genName)+1:]
				break
			}
		}
	}
	return out
}

func noteDrift(cf *ContractFile, goName, why string) {
	for _, n := range cf.Order {
		c := cf.Contracts[n]
		for _, cl := range c.AllClauses() {
			if cl.GoName == goName {
				c.Drift = append(c.Drift, fmt.Sprintf("%s %s: %s", cl.Kind, cl.Label, why))
			}
		}
	}
}

func numbered(src string) string {
	var b strings.Builder
	for i, l := range strings.Split(src, "\n") {
		fmt.Fprintf(&b, "%4d %s\n", i+1, l)
	}
	return b.String()
}

func explainGenErrors(errs []string, gen, genName string, cf *ContractFile) string {
	lines := strings.Split(gen, "\n")
	var b strings.Builder
	for _, e := range errs {
		b.WriteString(e)
		b.WriteByte('\n')
		// map generated line back to clause
		if strings.HasPrefix(e, genName+":") {
			rest := e[len(genName)+1:]
			var ln int
			fmt.Sscanf(rest, "%d", &ln)
			for k := ln - 1; k >= 0 && k > ln-4; k-- {
				if k < len(lines) && strings.HasPrefix(lines[k], "// clause ") {
					b.WriteString("    in " + lines[k][3:] + "\n")
					break
				}
			}
		}
	}
	return b.String()
}

// ---------------------------------------------------------------------------
// Clause function generation

type funcSite struct {
	preferLocals bool // loop invariants: a local named `result` shadows the result keyword
	anyScope bool // call-site clauses: locals of nested blocks are visible by (unique) name
	extra   map[string]types.Type // names bound by name rather than by scope (interface contracts, call sites)
	recvVar *types.Var
	sig     *types.Signature
	body    *ast.BlockStmt
	decl    ast.Node
	loops   []ast.Stmt // loops in source order (outer before inner), closures excluded
}

// findFuncSite locates the AST of the function named like an ssa.Function.
func findFuncSite(root *packages.Package, name string) (*funcSite, error) {
	if strings.HasPrefix(name, "iface:") {
		return findIfaceSite(root, name[6:])
	}
	if strings.HasPrefix(name, "ext:") {
		return findExtSite(root, name[4:])
	}
	base := name
	var anon []int
	for {
		i := strings.LastIndex(base, "$")
		if i < 0 {
			break
		}
		var n int
		if _, err := fmt.Sscanf(base[i+1:], "%d", &n); err != nil {
			break
		}
		anon = append([]int{n}, anon...)
		base = base[:i]
	}
	var recvName, fname string
	if strings.HasPrefix(base, "(") {
		j := strings.Index(base, ").")
		if j < 0 {
			return nil, fmt.Errorf("bad function name %q", name)
		}
		recvName = strings.TrimPrefix(base[1:j], "*")
		fname = base[j+2:]
	} else {
		fname = base
	}
	var decl *ast.FuncDecl
	for _, f := range root.Syntax {
		for _, d := range f.Decls {
			fd, ok := d.(*ast.FuncDecl)
			if !ok || fd.Name.Name != fname {
				continue
			}
			if recvName == "" && fd.Recv == nil {
				decl = fd
			}
			if recvName != "" && fd.Recv != nil && len(fd.Recv.List) == 1 {
				t := fd.Recv.List[0].Type
				if s, ok := t.(*ast.StarExpr); ok {
					t = s.X
				}
				if id, ok := t.(*ast.Ident); ok && id.Name == recvName {
					decl = fd
				}
			}
		}
	}
	if decl == nil {
		return nil, fmt.Errorf("function %q not found in package", name)
	}
	obj := root.TypesInfo.Defs[decl.Name].(*types.Func)
	site := &funcSite{sig: obj.Type().(*types.Signature), body: decl.Body, decl: decl}
	site.recvVar = site.sig.Recv()
	for _, n := range anon {
		lits := directFuncLits(site.body)
		if n < 1 || n > len(lits) {
			return nil, fmt.Errorf("function %q: no anonymous function #%d", name, n)
		}
		lit := lits[n-1]
		site = &funcSite{sig: root.TypesInfo.TypeOf(lit).(*types.Signature), body: lit.Body, decl: lit}
	}
	if site.body != nil {
		site.loops = directLoops(site.body)
	}
	return site, nil
}

func lookupTypeByShortName(root *packages.Package, tn string) types.Type {
	if i := strings.Index(tn, "."); i >= 0 {
		i = strings.LastIndex(tn, ".")
		pn, n := tn[:i], tn[i+1:]
		var found types.Type
		packages.Visit([]*packages.Package{root}, nil, func(p *packages.Package) {
			if found == nil && p.Types != nil && (p.Types.Name() == pn || p.Types.Path() == pn) {
				if o := p.Types.Scope().Lookup(n); o != nil {
					found = o.Type()
				}
			}
		})
		return found
	}
	if tn == "error" {
		return types.Universe.Lookup("error").Type()
	}
	if o := root.Types.Scope().Lookup(tn); o != nil {
		return o.Type()
	}
	return nil
}

// findExtSite: "pkg.Func" or "pkg.Func/DynType" or "(*pkg.T).Method"
func findExtSite(root *packages.Package, name string) (*funcSite, error) {
	if i := strings.Index(name, "@"); i >= 0 {
		name = name[:i]
	}
	var sig *types.Signature
	if strings.HasPrefix(name, "(") {
		j := strings.Index(name, ").")
		if j < 0 {
			return nil, fmt.Errorf("bad external method name %q", name)
		}
		tn := strings.TrimPrefix(name[1:j], "*")
		t := lookupTypeByShortName(root, tn)
		if t == nil {
			return nil, fmt.Errorf("external type %q not found", tn)
		}
		obj, _, _ := types.LookupFieldOrMethod(types.NewPointer(t), true, nil, name[j+2:])
		f, ok := obj.(*types.Func)
		if !ok {
			return nil, fmt.Errorf("external method %q not found", name)
		}
		sig = f.Type().(*types.Signature)
		site := &funcSite{sig: sig, extra: map[string]types.Type{"self": sig.Recv().Type()}}
		addSigNames(site, sig)
		return site, nil
	}
	i := strings.LastIndex(name, ".")
	if i < 0 {
		return nil, fmt.Errorf("bad external function name %q", name)
	}
	var found *types.Func
	packages.Visit([]*packages.Package{root}, nil, func(p *packages.Package) {
		if found == nil && p.Types != nil && (p.Types.Name() == name[:i] || p.Types.Path() == name[:i]) {
			if o, ok := p.Types.Scope().Lookup(name[i+1:]).(*types.Func); ok {
				found = o
			}
		}
	})
	if found == nil {
		return nil, fmt.Errorf("external function %q not found", name)
	}
	sig = found.Type().(*types.Signature)
	site := &funcSite{sig: sig, extra: map[string]types.Type{}}
	addSigNames(site, sig)
	return site, nil
}

func addSigNames(site *funcSite, sig *types.Signature) {
	for p := 0; p < sig.Params().Len(); p++ {
		if n := sig.Params().At(p).Name(); n != "" && n != "_" {
			site.extra[n] = sig.Params().At(p).Type()
		}
	}
	for p := 0; p < sig.Results().Len(); p++ {
		if n := sig.Results().At(p).Name(); n != "" && n != "_" {
			site.extra[n] = sig.Results().At(p).Type()
		}
	}
}

func findIfaceSite(root *packages.Package, name string) (*funcSite, error) {
	i := strings.LastIndex(name, ".")
	if i < 0 {
		return nil, fmt.Errorf("bad interface method name %q", name)
	}
	t := lookupTypeByShortName(root, name[:i])
	if t == nil {
		return nil, fmt.Errorf("interface type %q not found", name[:i])
	}
	it, ok := t.Underlying().(*types.Interface)
	if !ok {
		return nil, fmt.Errorf("%q is not an interface", name[:i])
	}
	for k := 0; k < it.NumMethods(); k++ {
		m := it.Method(k)
		if m.Name() == name[i+1:] {
			sig := m.Type().(*types.Signature)
			site := &funcSite{sig: sig, extra: map[string]types.Type{"self": t}}
			for p := 0; p < sig.Params().Len(); p++ {
				site.extra[fmt.Sprintf("arg%d", p)] = sig.Params().At(p).Type()
				if n := sig.Params().At(p).Name(); n != "" && n != "_" {
					site.extra[n] = sig.Params().At(p).Type()
				}
			}
			for p := 0; p < sig.Results().Len(); p++ {
				if n := sig.Results().At(p).Name(); n != "" && n != "_" {
					site.extra[n] = sig.Results().At(p).Type()
				}
			}
			return site, nil
		}
	}
	return nil, fmt.Errorf("interface %q has no method %q", name[:i], name[i+1:])
}

// directFuncLits lists function literals directly inside body (not nested in
// other literals), in source order — the order in which the SSA builder numbers them.
func directFuncLits(body ast.Node) []*ast.FuncLit {
	var out []*ast.FuncLit
	ast.Inspect(body, func(n ast.Node) bool {
		if l, ok := n.(*ast.FuncLit); ok {
			out = append(out, l)
			return false
		}
		return true
	})
	return out
}

func directLoops(body ast.Node) []ast.Stmt {
	var out []ast.Stmt
	ast.Inspect(body, func(n ast.Node) bool {
		switch s := n.(type) {
		case *ast.FuncLit:
			return false
		case *ast.ForStmt:
			out = append(out, s)
		case *ast.RangeStmt:
			out = append(out, s)
		}
		return true
	})
	return out
}


func lemmaParamNames(list string) ([]string, error) {
	e, err := parser.ParseExpr("func(" + list + "){}")
	if err != nil {
		return nil, fmt.Errorf("lemma parameter list %q does not parse: %v", list, err)
	}
	var out []string
	for _, f := range e.(*ast.FuncLit).Type.Params.List {
		for _, nm := range f.Names {
			out = append(out, nm.Name)
		}
	}
	return out, nil
}

// collectParams finds the free identifiers of expr that denote parameters,
// results or locals of the function at site, with their printed types.
func collectParams(expr ast.Expr, site *funcSite, scope *types.Scope, pkgScope *types.Scope, pos token.Pos, g *genCtx) ([]ClauseParam, []string) {
	declared := map[string]bool{}
	ast.Inspect(expr, func(nd ast.Node) bool {
		if fl, ok := nd.(*ast.FuncLit); ok {
			for _, f := range fl.Type.Params.List {
				for _, nm := range f.Names {
					declared[nm.Name] = true
				}
			}
		}
		return true
	})
	seen := map[string]bool{}
	var params []ClauseParam
	var ptypes []string
	var walk func(nd ast.Node) bool
	walk = func(nd ast.Node) bool {
		switch x := nd.(type) {
		case *ast.SelectorExpr:
			ast.Inspect(x.X, walk)
			return false
		case *ast.KeyValueExpr:
			ast.Inspect(x.Value, walk)
			return false
		case *ast.Ident:
			nm := x.Name
			if seen[nm] || declared[nm] {
				return true
			}
			seen[nm] = true
			switch {
			case nm == "it_i" || nm == "it_n" || nm == "it_o":
				params = append(params, ClauseParam{Name: nm, Kind: nm})
				ptypes = append(ptypes, "int")
				return true
			case nm == "result" || (strings.HasPrefix(nm, "result") && len(nm) == 7 && nm[6] >= '0' && nm[6] <= '9'):
				if scope != nil && site.preferLocals {
					if _, obj := scope.LookupParent(nm, pos); obj != nil {
						if v, ok := obj.(*types.Var); ok && v.Parent() != pkgScope && v.Parent() != types.Universe && !v.IsField() {
							params = append(params, ClauseParam{Name: nm, Kind: "var", Pos: int(v.Pos())})
							ptypes = append(ptypes, types.TypeString(v.Type(), g.qual))
							return true
						}
					}
				}
				k := 0
				if len(nm) == 7 {
					k = int(nm[6] - '0')
				}
				res := site.sig.Results()
				if k < res.Len() && (res.At(k).Name() == "" || res.At(k).Name() == "_") {
					params = append(params, ClauseParam{Name: nm, Kind: "result", Idx: k})
					ptypes = append(ptypes, types.TypeString(res.At(k).Type(), g.qual))
					return true
				}
			}
			if t, ok := site.extra[nm]; ok {
				params = append(params, ClauseParam{Name: nm, Kind: "name"})
				ptypes = append(ptypes, types.TypeString(t, g.qual))
				return true
			}
			if scope != nil {
				if _, obj := scope.LookupParent(nm, pos); obj != nil {
					if v, ok := obj.(*types.Var); ok && v.Parent() != pkgScope && v.Parent() != types.Universe && !v.IsField() {
						params = append(params, ClauseParam{Name: nm, Kind: "var", Pos: int(v.Pos())})
						ptypes = append(ptypes, types.TypeString(v.Type(), g.qual))
						return true
					}
					return true
				}
				// call-site clauses may mention a local of a nested block, if its name is unique in the function
				if site.anyScope && site.body != nil {
					var found *types.Var
					count := 0
					var visit func(sc *types.Scope)
					visit = func(sc *types.Scope) {
						if o := sc.Lookup(nm); o != nil {
							if v, ok := o.(*types.Var); ok {
								found = v
								count++
							}
						}
						for i := 0; i < sc.NumChildren(); i++ {
							visit(sc.Child(i))
						}
					}
					if fs := pkgScope.Innermost(site.body.Lbrace + 1); fs != nil {
						visit(fs)
					}
					if count == 1 {
						params = append(params, ClauseParam{Name: nm, Kind: "var", Pos: int(found.Pos())})
						ptypes = append(ptypes, types.TypeString(found.Type(), g.qual))
					}
				}
			}
		}
		return true
	}
	ast.Inspect(expr, walk)
	return params, ptypes
}


// probeType type-checks an expression whose free names are bound by name
// (interface / external contracts) by checking a throw-away function together
// with the package.
func probeType(L *Loaded, root *packages.Package, site *funcSite, e ast.Expr) types.Type {
	g := &genCtx{imports: map[string]string{}}
	var ps []string
	names := make([]string, 0, len(site.extra))
	for n := range site.extra {
		names = append(names, n)
	}
	sort.Strings(names)
	for _, n := range names {
		ps = append(ps, n+" "+types.TypeString(site.extra[n], g.qual))
	}
	var b strings.Builder
	b.WriteString("//go:build go1.18\n\npackage restful\n\n")
	for p, n := range g.imports {
		fmt.Fprintf(&b, "import %s %q\n", n, p)
	}
	var eb strings.Builder
	printer.Fprint(&eb, token.NewFileSet(), e)
	fmt.Fprintf(&b, "func verif_probe(%s) {\n\tverif_probe_sink(%s)\n}\nfunc verif_probe_sink[T any](x T) {}\n", strings.Join(ps, ", "), eb.String())
	fset := root.Fset
	pf, err := parser.ParseFile(fset, filepath.Join(L.RepoDir, "zz_verif_probe.go"), b.String(), 0)
	if err != nil {
		return nil
	}
	files := append(append([]*ast.File{}, root.Syntax...), pf)
	info := &types.Info{Types: map[ast.Expr]types.TypeAndValue{}}
	tc := &types.Config{Importer: L.importer, Error: func(error) {}, Sizes: root.TypesSizes}
	tc.Check(pkgPath, fset, files, info)
	var found types.Type
	ast.Inspect(pf, func(n ast.Node) bool {
		if c, ok := n.(*ast.CallExpr); ok {
			if id, ok := c.Fun.(*ast.Ident); ok && id.Name == "verif_probe_sink" && len(c.Args) == 1 {
				if tv, ok := info.Types[c.Args[0]]; ok {
					found = tv.Type
				}
			}
		}
		return true
	})
	return found
}

func genModifies(L *Loaded, root *packages.Package, g *genCtx, site *funcSite, fname string, cl *Clause, n *int) error {
	pkgScope := root.Types.Scope()
	var pos token.Pos
	if site.body != nil {
		pos = site.body.Lbrace + 1
	}
	var scope *types.Scope
	if pos.IsValid() {
		scope = pkgScope.Innermost(pos)
	}
	for _, item := range splitTop(cl.Src, ",") {
		item = strings.TrimSpace(item)
		ms := &modSpec{expr: item}
		cl.modParsed = append(cl.modParsed, ms)
		switch {
		case item == "nothing":
			ms.kind = "nothing"
			continue
		case strings.HasPrefix(item, "ghost "):
			ms.kind = "ghost"
			ms.name = strings.TrimSpace(item[6:])
			continue
		}
		exprText := item
		if strings.HasPrefix(item, "elems(") && strings.HasSuffix(item, ")") {
			ms.kind = "elems"
			exprText = item[6 : len(item)-1]
		}
		if strings.HasPrefix(item, "map ") {
			ms.kind = "map"
			exprText = strings.TrimSpace(item[4:])
		}
		if strings.HasPrefix(item, "cb(") && strings.HasSuffix(item, ")") {
			ms.kind = "cb"
			exprText = item[3 : len(item)-1]
		}
		if item == "headers" {
			ms.kind = "headers"
			continue
		}
		expr, err := parser.ParseExpr(exprText)
		if err != nil {
			return fmt.Errorf("verif_contracts.go:%d: modifies item %q does not parse: %v", cl.Line, item, err)
		}
		typeOf := func(e ast.Expr) types.Type {
			if len(site.extra) > 0 {
				return probeType(L, root, site, e)
			}
			info := &types.Info{Types: map[ast.Expr]types.TypeAndValue{}}
			if err := types.CheckExpr(root.Fset, root.Types, pos, e, info); err != nil {
				return nil
			}
			return info.Types[e].Type
		}
		if ms.kind == "" {
			ms.kind = "ptr"
			if sel, ok := expr.(*ast.SelectorExpr); ok {
				if bt := typeOf(sel.X); bt != nil {
					if pt, ok := bt.Underlying().(*types.Pointer); ok {
						if st, ok := pt.Elem().Underlying().(*types.Struct); ok {
							for i := 0; i < st.NumFields(); i++ {
								if st.Field(i).Name() == sel.Sel.Name {
									ms.kind = "field"
									ms.fields = []string{sel.Sel.Name}
									expr = sel.X
									exprText = exprText[:strings.LastIndex(exprText, ".")]
								}
							}
						}
					}
				}
			}
		}
		rt := typeOf(expr)
		if rt == nil {
			return fmt.Errorf("verif_contracts.go:%d: modifies item %q does not type-check in %s", cl.Line, item, fname)
		}
		switch ms.kind {
		case "ptr", "field", "cb":
			if _, ok := rt.Underlying().(*types.Pointer); !ok {
				return fmt.Errorf("verif_contracts.go:%d: modifies item %q is not a pointer (type %s)", cl.Line, item, rt)
			}
		case "elems":
			if _, ok := rt.Underlying().(*types.Slice); !ok {
				return fmt.Errorf("verif_contracts.go:%d: modifies elems(%s): not a slice", cl.Line, exprText)
			}
		case "map":
			if _, ok := rt.Underlying().(*types.Map); !ok {
				return fmt.Errorf("verif_contracts.go:%d: modifies map %s: not a map", cl.Line, exprText)
			}
		}
		*n++
		ms.goName = fmt.Sprintf("verif_cl_%d", *n)
		params, ptypes := collectParams(expr, site, scope, pkgScope, pos, g)
		ms.params = params
		fmt.Fprintf(&g.b, "// clause %s modifies (verif_contracts.go:%d): %s\n", fname, cl.Line, item)
		fmt.Fprintf(&g.b, "func %s(", ms.goName)
		for i, p := range params {
			if i > 0 {
				g.b.WriteString(", ")
			}
			fmt.Fprintf(&g.b, "%s %s", p.Name, ptypes[i])
		}
		fmt.Fprintf(&g.b, ") %s {\n\treturn %s\n}\n\n", types.TypeString(rt, g.qual), exprText)
	}
	return nil
}

type genCtx struct {
	imports map[string]string // path -> name
	b       strings.Builder
}

func (g *genCtx) qual(p *types.Package) string {
	if p.Path() == pkgPath {
		return ""
	}
	g.imports[p.Path()] = p.Name()
	return p.Name()
}

func generateClauses(L *Loaded, root *packages.Package, cf *ContractFile, dropped map[string]bool) (string, error) {
	g := &genCtx{imports: map[string]string{}}
	n := 0
	pkgScope := root.Types.Scope()
	for _, fname := range cf.Order {
		c := cf.Contracts[fname]
		if strings.HasPrefix(fname, "lemma:") {
			pnames, err := lemmaParamNames(c.LemmaParams)
			if err != nil {
				return "", fmt.Errorf("verif_contracts.go:%d: %v", c.Line, err)
			}
			for _, tr := range c.Triggers {
				// one function per pattern term; the result type is inferred through a generic sink
				for k, item := range splitTop(tr.Src, ",") {
					n++
					nm := fmt.Sprintf("verif_cl_%d", n)
					tr.modParsed = append(tr.modParsed, &modSpec{kind: "trigger", goName: nm, expr: strings.TrimSpace(item)})
					fmt.Fprintf(&g.b, "// clause %s trigger %d (verif_contracts.go:%d)\nfunc %s(%s) bool {\n\tverifTriggerSink(%s)\n\treturn true\n}\n\n", fname, k, tr.Line, nm, c.LemmaParams, strings.TrimSpace(item))
				}
			}
			for _, cl := range c.AllClauses() {
				n++
				cl.GoName = fmt.Sprintf("verif_cl_%d", n)
				if _, err := parser.ParseExpr(cl.Expr); err != nil {
					return "", fmt.Errorf("verif_contracts.go:%d: clause %s does not parse: %v", cl.Line, cl.Label, err)
				}
				cl.Params = nil
				for _, pn := range pnames {
					cl.Params = append(cl.Params, ClauseParam{Name: pn, Kind: "name"})
				}
				fmt.Fprintf(&g.b, "// clause %s %s %s (verif_contracts.go:%d): %s\n", fname, cl.Kind, cl.Label, cl.Line, cl.Src)
				fmt.Fprintf(&g.b, "func %s(%s) bool {\n\treturn %s\n}\n\n", cl.GoName, c.LemmaParams, cl.Expr)
				// `requires def.v: v == e` defines the integer parameter v: where the lemma is
				// used, v is not quantified but replaced by e
				if cl.Kind == "requires" && strings.HasPrefix(cl.Label, "def.") {
					v := strings.TrimPrefix(cl.Label, "def.")
					parts := strings.SplitN(cl.Expr, "==", 2)
					if len(parts) != 2 || strings.TrimSpace(parts[0]) != v {
						return "", fmt.Errorf("verif_contracts.go:%d: a defining clause has the form `requires def.%s: %s == <expr>`", cl.Line, v, v)
					}
					n++
					cl.DefGoName = fmt.Sprintf("verif_cl_%d", n)
					fmt.Fprintf(&g.b, "func %s(%s) int {\n\treturn %s\n}\n\n", cl.DefGoName, c.LemmaParams, strings.TrimSpace(parts[1]))
				}
			}
			continue
		}
		site, err := findFuncSite(root, fname)
		if err != nil {
			return "", fmt.Errorf("verif_contracts.go:%d: %v", c.Line, err)
		}
		for _, cl := range c.AllClauses() {
			if cl.Kind == "modifies" {
				if err := genModifies(L, root, g, site, fname, cl, &n); err != nil {
					return "", err
				}
				continue
			}
			n++
			cl.GoName = fmt.Sprintf("verif_cl_%d", n)
			// position for scope lookup
			var pos token.Pos
			if site.body != nil {
				pos = site.body.Rbrace
			}
			if cl.Kind == "invariant" {
				if cl.Loop < 0 || cl.Loop >= len(site.loops) {
					c.Drift = append(c.Drift, fmt.Sprintf("invariant %s: the function has %d loops, no loop %d", cl.Label, len(site.loops), cl.Loop))
					delete(c.Invariants, cl.Loop)
					n--
					continue
				}
				switch s := site.loops[cl.Loop].(type) {
				case *ast.ForStmt:
					pos = s.Body.Lbrace + 1
				case *ast.RangeStmt:
					pos = s.Body.Lbrace + 1
				}
			}
			expr, err := parser.ParseExpr(cl.Expr)
			if err != nil {
				return "", fmt.Errorf("verif_contracts.go:%d: clause %s does not parse: %v\n   %s", cl.Line, cl.Label, err, cl.Expr)
			}
			var scope *types.Scope
			if pos.IsValid() {
				scope = pkgScope.Innermost(pos)
			}
			useSite := site
			if cl.Kind == "invariant" {
				cp := *site
				cp.preferLocals = true
				useSite = &cp
			}
			if cl.Kind == "callsite" {
				cp := *site
				cp.anyScope = true
				if cl.CallType == "chansend" {
					// arg0: the value sent; typed as the element type of the first channel field sent to — kept generic
					cp.extra = map[string]types.Type{"arg0": types.NewInterfaceType(nil, nil)}
				} else if ft := lookupTypeByShortName(root, cl.CallType); ft != nil {
					fsig, ok := ft.Underlying().(*types.Signature)
					if !ok {
						return "", fmt.Errorf("verif_contracts.go:%d: callsite: %q is not a function type", cl.Line, cl.CallType)
					}
					cp.extra = map[string]types.Type{"callee": ft}
					for k := 0; k < fsig.Params().Len(); k++ {
						cp.extra[fmt.Sprintf("arg%d", k)] = fsig.Params().At(k).Type()
					}
				} else if strings.HasPrefix(cl.CallType, "iface:") || strings.HasPrefix(cl.CallType, "ext:") {
					cs, err := findFuncSite(root, cl.CallType)
					if err != nil {
						return "", fmt.Errorf("verif_contracts.go:%d: callsite: %v", cl.Line, err)
					}
					cp.extra = map[string]types.Type{}
					if t, ok := cs.extra["self"]; ok {
						cp.extra["self"] = t
					}
					for j := 0; j < cs.sig.Params().Len(); j++ {
						cp.extra[fmt.Sprintf("arg%d", j)] = cs.sig.Params().At(j).Type()
					}
				} else if cs, err := findFuncSite(root, cl.CallType); err == nil {
					// a statically called function or method of the package: arg0 is the receiver
					cp.extra = map[string]types.Type{}
					k := 0
					if cs.sig.Recv() != nil {
						cp.extra["arg0"] = cs.sig.Recv().Type()
						k = 1
					}
					for j := 0; j < cs.sig.Params().Len(); j++ {
						cp.extra[fmt.Sprintf("arg%d", k+j)] = cs.sig.Params().At(j).Type()
					}
				} else {
					return "", fmt.Errorf("verif_contracts.go:%d: callsite: unknown function type or function %q", cl.Line, cl.CallType)
				}
				useSite = &cp
			}
			params, ptypes := collectParams(expr, useSite, scope, pkgScope, pos, g)
			cl.Params = params
			fmt.Fprintf(&g.b, "// clause %s %s %s (verif_contracts.go:%d): %s\n", fname, cl.Kind, cl.Label, cl.Line, cl.Src)
			fmt.Fprintf(&g.b, "func %s(", cl.GoName)
			for i, p := range params {
				if i > 0 {
					g.b.WriteString(", ")
				}
				fmt.Fprintf(&g.b, "%s %s", p.Name, ptypes[i])
			}
			body := cl.Expr
			if dropped[cl.GoName] {
				body = "false /* clause dropped: no longer type-checks against the code (contract drift) */"
			}
			fmt.Fprintf(&g.b, ") bool {\n\treturn %s\n}\n\n", body)
		}
	}
	var tinames []string
	for tn := range cf.TypeInvs {
		tinames = append(tinames, tn)
	}
	sort.Strings(tinames)
	for _, tn := range tinames {
		cl := cf.TypeInvs[tn]
		n++
		cl.GoName = fmt.Sprintf("verif_cl_%d", n)
		cl.Params = []ClauseParam{{Name: "self", Kind: "name"}}
		fmt.Fprintf(&g.b, "// clause typeinv %s (verif_contracts.go:%d): %s\n", tn, cl.Line, cl.Src)
		fmt.Fprintf(&g.b, "func %s(self *%s) bool {\n\treturn %s\n}\n\n", cl.GoName, tn, cl.Expr)
	}
	for _, cl := range append(append([]*Clause{}, cf.Globals...), cf.Axioms...) {
		n++
		cl.GoName = fmt.Sprintf("verif_cl_%d", n)
		if _, err := parser.ParseExpr(cl.Expr); err != nil {
			return "", fmt.Errorf("verif_contracts.go:%d: global invariant %s does not parse: %v", cl.Line, cl.Label, err)
		}
		fmt.Fprintf(&g.b, "// clause global invariant %s (verif_contracts.go:%d): %s\n", cl.Label, cl.Line, cl.Src)
		fmt.Fprintf(&g.b, "func %s() bool {\n\treturn %s\n}\n\n", cl.GoName, cl.Expr)
	}
	var hdr strings.Builder
	hdr.WriteString("//go:build go1.18\n\npackage restful\n\n")
	paths := make([]string, 0, len(g.imports))
	for p := range g.imports {
		paths = append(paths, p)
	}
	sort.Strings(paths)
	for _, p := range paths {
		fmt.Fprintf(&hdr, "import %s %q\n", g.imports[p], p)
	}
	body := g.b.String()
	for _, std := range []string{"strings", "regexp", "net/http", "sort", "bytes", "net/textproto"} {
		short := std[strings.LastIndex(std, "/")+1:]
		if _, have := g.imports[std]; !have && strings.Contains(body, short+".") {
			fmt.Fprintf(&hdr, "import %s %q\n", short, std)
		}
	}
	hdr.WriteString("\n")
	// keep imports used even if a type only appears in a signature
	return hdr.String() + g.b.String(), nil
}

// lemmaCycle: a cycle in the `uses` relation among lemmas, or "".
func lemmaCycle(cf *ContractFile) string {
	uses := func(n string) []string {
		ct := cf.Contracts[n]
		if ct == nil {
			return nil
		}
		var out []string
		for _, u := range ct.Uses {
			if k := strings.Index(u, "/"); k > 0 {
				u = u[k+1:]
			}
			out = append(out, "lemma:"+u)
		}
		return out
	}
	state := map[string]int{}
	var path []string
	var visit func(n string) string
	visit = func(n string) string {
		switch state[n] {
		case 1:
			return strings.Join(append(path, n), " -> ")
		case 2:
			return ""
		}
		state[n] = 1
		path = append(path, n)
		for _, u := range uses(n) {
			if c := visit(u); c != "" {
				return c
			}
		}
		path = path[:len(path)-1]
		state[n] = 2
		return ""
	}
	for _, n := range cf.Order {
		if strings.HasPrefix(n, "lemma:") {
			if c := visit(n); c != "" {
				return c
			}
		}
	}
	return ""
}
