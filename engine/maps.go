package main

// Maps (reference into a ghost heap of (dom, val, size) values).

import (
	"go/types"

	"golang.org/x/tools/go/ssa"
)

func (vc *VC) mapParts(mt *types.Map) (name string, hs Sort, ms Sort, ks Sort, vs Sort) {
	ks, vs = vc.specialSort(mt.Key()), vc.specialSort(mt.Elem())
	name, hs = vc.mapHeap(mt)
	ms = mapValSort(ks, vs)
	return
}

func (vc *VC) mapGet(st *State, mt *types.Map, m Term) (Term, Sort, Sort, Sort) {
	name, hs, ms, ks, vs := vc.mapParts(mt)
	h := vc.heapFor(st, name, hs)
	return Sel(h, m, ms), ms, ks, vs
}

func (fr *Frame) execMakeMap(x *ssa.MakeMap, st *State) *State {
	vc := fr.vc
	mt := x.Type().Underlying().(*types.Map)
	name, hs, ms, ks, vs := vc.mapParts(mt)
	h := vc.heapFor(st, name, hs)
	id := vc.newObject(st)
	empty := T(ms, "(mk.%s ((as const (Array %s Bool)) false) ((as const (Array %s %s)) %s) 0)", ms, ks, ks, vs, vc.ss.Zero(vs).S)
	st.heaps[name] = vc.Define(name, Sto(h, id, empty))
	fr.vals[x] = TV(id)
	return st
}

func (fr *Frame) execMapUpdate(x *ssa.MapUpdate, st *State) *State {
	vc := fr.vc
	mt := x.Map.Type().Underlying().(*types.Map)
	name, hs, ms, ks, vs := vc.mapParts(mt)
	m := fr.val(x.Map).T
	k := fr.val(x.Key).T
	v := fr.val(x.Value).T
	vc.Safe("nilmap", x.Pos(), st, Not(Eq(m, IntLit(0))), "assignment to entry in nil map")
	st.Assume(Not(Eq(m, IntLit(0))))
	if !vc.noFrame && vc.dry == 0 {
		vc.safeCount["frame"]++
		vc.Oblige("frame", "map#"+itoa(vc.safeCount["frame"]), x.Pos(), st, fr.mapFrameGoal(name, m), "map write outside the frame ("+name+")")
	}
	h := vc.heapFor(st, name, hs)
	mv := Sel(h, m, ms)
	dom := App(Sort("(Array "+string(ks)+" Bool)"), "mdom."+string(ms), mv)
	val := App(Sort("(Array "+string(ks)+" "+string(vs)+")"), "mval."+string(ms), mv)
	size := App(SInt, "msize."+string(ms), mv)
	nsize := Ite(Sel(dom, k, SBool), size, Add(size, IntLit(1)))
	nmv := App(ms, "mk."+string(ms), Sto(dom, k, True), Sto(val, k, v), nsize)
	st.heaps[name] = vc.Define(name, Sto(h, m, nmv))
	return st
}

func (fr *Frame) mapFrameGoal(name string, m Term) Term {
	vc := fr.vc
	alts := []Term{Le(vc.alloc0, m)}
	hname, _ := vc.mapHeap(vc.headerMapType())
	for _, it := range vc.modSet {
		if it.ghost == "map:"+name {
			alts = append(alts, Eq(m, it.ptr))
		}
		if it.headers && name == hname {
			return True
		}
	}
	return Or(alts...)
}

func (fr *Frame) execLookup(x *ssa.Lookup, st *State) *State {
	vc := fr.vc
	if mt, ok := x.X.Type().Underlying().(*types.Map); ok {
		m := fr.val(x.X).T
		k := fr.val(x.Index).T
		mv, ms, ks, vs := vc.mapGet(st, mt, m)
		dom := App(Sort("(Array "+string(ks)+" Bool)"), "mdom."+string(ms), mv)
		val := App(Sort("(Array "+string(ks)+" "+string(vs)+")"), "mval."+string(ms), mv)
		has := And(Not(Eq(m, IntLit(0))), Sel(dom, k, SBool))
		v := Ite(has, Sel(val, k, vs), vc.ss.Zero(vs))
		if !fr.pure && len(vc.defScopes) == 0 {
			if wf := vc.wfValue(v, mt.Elem(), st); wf.S != "true" {
				st.Assume(wf)
			}
		}
		if x.CommaOk {
			fr.vals[x] = Val{Tuple: []Val{TV(v), TV(has)}}
		} else {
			fr.vals[x] = TV(v)
		}
		return st
	}
	// string index
	s := fr.val(x.X).T
	i := fr.val(x.Index).T
	vc.Safe("index", x.Pos(), st, And(Le(IntLit(0), i), Lt(i, App(SInt, "str.len", s))), "string index out of range")
	fr.vals[x] = TV(App(SInt, "str.to_code", App(SString, "str.at", s, i)))
	return st
}

func (fr *Frame) mapOrChanLen(t types.Type, a Term, st *State) Term {
	vc := fr.vc
	if mt, ok := t.Underlying().(*types.Map); ok {
		mv, ms, _, _ := vc.mapGet(st, mt, a)
		size := App(SInt, "msize."+string(ms), mv)
		return Ite(Eq(a, IntLit(0)), IntLit(0), size)
	}
	return fr.chanLen(a, st)
}

func (fr *Frame) builtinDelete(x ssa.CallInstruction, args []Val, st *State) (Val, *State) {
	fail("%s: delete() not modelled", fr.vc.posOf(x.Pos()))
	return Val{}, nil
}

// execRangeNext: iteration over a map visits, in every step, an arbitrary
// key of the map and may stop at any time — a superset of what Go does, so
// everything proved holds for every iteration order (DESIGN §3.8 item 7).
func (fr *Frame) execRangeNext(ins ssa.Instruction, st *State) *State {
	vc := fr.vc
	switch x := ins.(type) {
	case *ssa.Range:
		if _, ok := x.X.Type().Underlying().(*types.Map); !ok {
			fail("%s: range over %s is outside the subset", vc.posOf(x.Pos()), x.X.Type())
		}
		fr.vals[x] = fr.val(x.X)
		// keys visited so far (string-keyed maps only): starts empty
		if mt := x.X.Type().Underlying().(*types.Map); vc.specialSort(mt.Key()) == SString {
			m := fr.val(x.X).T
			mv, ms, _, _ := vc.mapGet(st, mt, m)
			if fr.rangeMap == nil {
				fr.rangeMap = map[*ssa.Range]string{}
			}
			fr.rangeMap[x] = mv.S
			vc.setGhost(st, "$rangemap."+string(ms), mv)
			vc.setGhost(st, "$rangevisited", T(visitedSort, "((as const %s) false)", visitedSort))
		}
		return st
	case *ssa.Next:
		rng, ok := x.Iter.(*ssa.Range)
		if !ok || x.IsString {
			fail("%s: string iteration is outside the subset", vc.posOf(x.Pos()))
		}
		mt := rng.X.Type().Underlying().(*types.Map)
		m := fr.val(x.Iter).T
		mv, ms, ks, vs := vc.mapGet(st, mt, m)
		dom := App(Sort("(Array "+string(ks)+" Bool)"), "mdom."+string(ms), mv)
		val := App(Sort("(Array "+string(ks)+" "+string(vs)+")"), "mval."+string(ms), mv)
		okT := vc.Fresh("next.ok", SBool)
		k := vc.Fresh("next.key", ks)
		st.Assume(Implies(okT, And(Not(Eq(m, IntLit(0))), Sel(dom, k, SBool))))
		if ks == SString {
			// every step visits a key not visited before; when the iteration
			// ends (and the map was not changed meanwhile) every key was visited
			vis := vc.ghost(st, "$rangevisited", visitedSort)
			st.Assume(Implies(okT, Not(Sel(vis, k, SBool))))
			{
				// "the map was not changed meanwhile": its value equals the value at the start of the range
				unchanged := True
				if fr.rangeMap[rng] != mv.S {
					unchanged = Eq(mv, vc.ghost(st, "$rangemap."+string(ms), ms))
				}
				st.Assume(Implies(And(Not(okT), Not(Eq(m, IntLit(0))), unchanged), T(SBool, "(forall ((k!v String)) (! (=> (select %s k!v) (select %s k!v)) :pattern ((select %s k!v)) :pattern ((select %s k!v))))", dom.S, vis.S, dom.S, vis.S)))
			}
			vc.setGhost(st, "$rangevisited", Ite(okT, Sto(vis, k, True), vis))
		}
		v := Sel(val, k, vs)
		if wf := vc.wfValue(v, mt.Elem(), st); wf.S != "true" {
			st.Assume(Implies(okT, wf))
		}
		vc.assumptions["map iteration: arbitrary key each step, may stop at any time (covers every order)"] = true
		fr.vals[x] = Val{Tuple: []Val{TV(okT), TV(k), TV(v)}}
		return st
	}
	return st
}

const visitedSort = Sort("(Array String Bool)")

func itoa(n int) string {
	return IntLit(int64(n)).S
}
