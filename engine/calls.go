package main

// Calls: builtins, spec functions and intrinsics, contracts, inlining, models.

import (
	"fmt"
	"go/constant"
	"go/token"
	"go/types"
	"sort"
	"strings"

	"golang.org/x/tools/go/ssa"
)

func (fr *Frame) execCall(x ssa.CallInstruction, st *State) (Val, *State) {
	com := x.Common()
	if com.IsInvoke() {
		return fr.callInvoke(x, com, st)
	}
	var args []Val
	for _, a := range com.Args {
		args = append(args, fr.val(a))
	}
	switch callee := com.Value.(type) {
	case *ssa.Builtin:
		return fr.callBuiltin(x, callee, args, st)
	case *ssa.Function:
		return fr.callStatic(callee, args, st, x.Pos(), x)
	case *ssa.MakeClosure:
		v := fr.val(callee)
		if v.Clo != nil {
			return fr.inlineCall(v.Clo.Fn, args, v.Clo.Bindings, st, x.Pos())
		}
		return fr.callDynamic(x, v.T, args, st)
	}
	// a call through a package-level function variable that the package itself only ever sets in its
	// initializer (MarshalIndent = json.MarshalIndent, ...) is a call of that initial value.
	// A-FUNCVAR: users who replace such an exported variable install a function with the same contract.
	if u, ok := com.Value.(*ssa.UnOp); ok && u.Op == token.MUL {
		if g, ok := u.X.(*ssa.Global); ok {
			if target := fr.vc.L.funcVarInit(g); target != nil {
				fr.vc.assumptions["A-FUNCVAR: the function variable "+g.Name()+" holds its initial value "+target.String()+" (or a replacement with the same contract)"] = true
				return fr.callStatic(target, args, st, x.Pos(), x)
			}
		}
	}
	v := fr.val(com.Value)
	if v.Clo != nil {
		return fr.inlineCall(v.Clo.Fn, args, v.Clo.Bindings, st, x.Pos())
	}
	return fr.callDynamic(x, v.T, args, st)
}

func originName(f *ssa.Function) string {
	if o := f.Origin(); o != nil {
		return o.Name()
	}
	return f.Name()
}

func (fr *Frame) callStatic(fn *ssa.Function, args []Val, st *State, pos token.Pos, site ssa.CallInstruction) (Val, *State) {
	vc := fr.vc
	L := vc.L
	if L.IsSpecFunc(fn) {
		if v, ok := fr.intrinsic(fn, args, st, pos, site); ok {
			return v, st
		}
		return TV(vc.specApp(fn, args, st)), st
	}
	full := fn.String()
	if m, ok := locModels[full]; ok {
		return m(fr, args, st, pos)
	}
	if m, ok := models[full]; ok {
		return m(fr, args, st, pos)
	}
	if m, ok := extraModels[full]; ok {
		return m(fr, args, st, pos)
	}
	if fn.Pkg == L.SSA || (fn.Parent() != nil && fn.Parent().Pkg == L.SSA) {
		rel := relFuncName(fn)
		ct := L.CF.Contracts[rel]
		if fr.pure {
			return fr.inlineCall(fn, args, nil, st, pos)
		}
		if ct != nil && !ct.Inline {
			return fr.callContract(fn, ct, args, st, pos)
		}
		fr.callSiteObligations(rel, fn, args, st, pos)
		return fr.inlineCall(fn, args, nil, st, pos)
	}
	// assumed contract of an external function: `//@ func ext:pkg.Func[/DynamicType]`
	if key, ct := fr.extContract(fn, site); ct != nil {
		sig := fn.Signature
		var recv Term
		cargs := args
		if sig.Recv() != nil {
			recv = args[0].T
			cargs = args[1:]
		}
		return fr.callIfaceContract(site, key, 4, ct, sig, recv, cargs, st)
	}
	// Go-level model function in /verif/models: model_<pkg>_<Name>
	if mf := L.modelFunc(fn); mf != nil {
		vc.assumptions["model:"+full] = true
		return TV(vc.specApp(mf, args, st)), st
	}
	// An external function that cannot reach package memory through its
	// arguments (basic values, boxed basic values, external objects) is
	// over-approximated: arbitrary results, may panic, no visible effect.
	if fn.Pkg != L.SSA && site != nil && externalArgsHarmless(site.Common()) {
		vc.assumptions["unmodelled external call "+full+": arbitrary results, no effect on modelled memory (its arguments cannot reach package objects)"] = true
		var results []Val
		rs := fn.Signature.Results()
		for i := 0; i < rs.Len(); i++ {
			t := rs.At(i).Type()
			r := vc.Fresh("ext", vc.specialSort(t))
			if wf := vc.wfValue(r, t, st); wf.S != "true" {
				st.Assume(wf)
			}
			results = append(results, TV(r))
		}
		pb := vc.Fresh("extpanics", SBool)
		ps := st.Clone()
		ps.Assume(pb)
		pv := vc.Fresh("panicval", SIface)
		ps.Assume(Not(Eq(App(SInt, "itag", pv), IntLit(0))))
		fr.raise(ps, pv, pos, "panic in unmodelled external call "+full)
		st.Assume(Not(pb))
		switch len(results) {
		case 0:
			return Val{}, st
		case 1:
			return results[0], st
		}
		return Val{Tuple: results}, st
	}
	fail("%s: call of %s has no contract or model", vc.posOf(pos), full)
	return Val{}, nil
}

func externalArgsHarmless(com *ssa.CallCommon) bool {
	basicOrExternal := func(t types.Type) bool {
		switch u := t.Underlying().(type) {
		case *types.Basic:
			return true
		case *types.Pointer:
			if n, ok := u.Elem().(*types.Named); ok && n.Obj().Pkg() != nil && n.Obj().Pkg().Path() != pkgPath {
				// pointer to an object of a foreign package (sync.Map, sync.Pool, ...)
				return !strings.HasPrefix(n.Obj().Pkg().Path(), "net/http")
			}
		}
		return false
	}
	for _, a := range com.Args {
		if basicOrExternal(a.Type()) {
			continue
		}
		if mi, ok := a.(*ssa.MakeInterface); ok && basicOrExternal(mi.X.Type()) {
			continue
		}
		if c, ok := a.(*ssa.Const); ok && c.Value == nil {
			continue
		}
		return false
	}
	return true
}

// extContract finds `ext:<func>/<dynamic type of the first interface argument>` or `ext:<func>`.
func (fr *Frame) extContract(fn *ssa.Function, site ssa.CallInstruction) (string, *Contract) {
	name := fn.String()
	cf := fr.vc.L.CF
	if site != nil {
		for _, a := range site.Common().Args {
			if mi, ok := a.(*ssa.MakeInterface); ok {
				k := "ext:" + name + "@" + shortTypeName(mi.X.Type())
				if ct := cf.Contracts[k]; ct != nil {
					return k, ct
				}
			}
			// sort.Sort(sort.Reverse(x)): keyed by the type of x (sort.Reverse is modelled as the identity,
			// the reversal is part of the contract registered under @reverse:T)
			if c, ok := a.(*ssa.Call); ok {
				if cf2 := c.Call.StaticCallee(); cf2 != nil && cf2.String() == "sort.Reverse" && len(c.Call.Args) == 1 {
					if mi, ok := c.Call.Args[0].(*ssa.MakeInterface); ok {
						k := "ext:" + name + "@reverse:" + shortTypeName(mi.X.Type())
						if ct := cf.Contracts[k]; ct != nil {
							return k, ct
						}
					}
				}
			}
		}
	}
	k := "ext:" + name
	return k, cf.Contracts[k]
}

func (L *Loaded) modelFunc(fn *ssa.Function) *ssa.Function {
	name := "model_" + mangle(strings.NewReplacer("(", "", ")", "", "*", "").Replace(fn.String()))
	return L.SSA.Func(name)
}

// ---------------------------------------------------------------------------
// inlining

func (fr *Frame) inlineCall(fn *ssa.Function, args []Val, bindings []Val, st *State, pos token.Pos) (Val, *State) {
	v, s, _ := fr.inlineCallF(fn, args, bindings, st, pos, nil)
	return v, s
}

// quantBody evaluates a quantifier body closure. The evaluation is recorded
// per call site, so that a second evaluation of the same clause in the
// post-state finds the pre-state values of the body (old(e) inside bodies).
func (fr *Frame) quantBody(site ssa.Instruction, clo *Closure, srt Sort, st *State, pos token.Pos) (Term, Val) {
	vc := fr.vc
	var bv Term
	var oldVals map[ssa.Value]Val
	var oldSub map[ssa.Instruction]*quantRecT
	if rec, ok := fr.oldQuant[site]; ok {
		bv = rec.bv
		oldVals = rec.vals
		oldSub = rec.sub
	} else {
		vc.fresh++
		bv = Term{S: fmt.Sprintf("k!%d", vc.fresh), Sort: srt}
	}
	res, _, sub := fr.inlineCallQ(clo.Fn, []Val{TV(bv)}, clo.Bindings, st.Clone(), pos, oldVals, oldSub)
	if fr.quantRec == nil {
		fr.quantRec = map[ssa.Instruction]*quantRecT{}
	}
	fr.quantRec[site] = &quantRecT{bv: bv, vals: sub.vals, sub: sub.quantRec}
	return bv, res
}

func (fr *Frame) inlineCallF(fn *ssa.Function, args []Val, bindings []Val, st *State, pos token.Pos, oldVals map[ssa.Value]Val) (Val, *State, *Frame) {
	return fr.inlineCallQ(fn, args, bindings, st, pos, oldVals, nil)
}

func (fr *Frame) inlineCallQ(fn *ssa.Function, args []Val, bindings []Val, st *State, pos token.Pos, oldVals map[ssa.Value]Val, oldQuant map[ssa.Instruction]*quantRecT) (Val, *State, *Frame) {
	vc := fr.vc
	if fn.Blocks == nil {
		fail("%s: cannot inline %s (no body)", vc.posOf(pos), fn)
	}
	for f := fr; f != nil; f = f.parent {
		if f.fn == fn {
			fail("%s: recursive inlining of %s", vc.posOf(pos), relFuncName(fn))
		}
	}
	if !fr.pure {
		vc.inlined[relFuncName(fn)] = true
	}
	sub := vc.newFrame(fn, fr)
	if oldVals != nil {
		sub.oldVals = oldVals
		sub.oldQuant = oldQuant
	}
	for i, p := range fn.Params {
		sub.vals[p] = args[i]
	}
	for i, fv := range fn.FreeVars {
		if i < len(bindings) {
			sub.free[fv] = bindings[i]
		}
	}
	res, out := sub.run(st)
	// exceptional exits of the callee propagate to the caller
	for _, p := range sub.panics {
		fr.raise(p.st, p.val, pos, p.why+" (via "+relFuncName(fn)+")")
	}
	if out == nil {
		return Val{}, nil, sub
	}
	return res, out, sub
}

// run executes the whole function and merges its normal exits.
func (sub *Frame) run(st *State) (Val, *State) {
	vc := sub.vc
	fn := sub.fn
	sub.execRegion(fn.Blocks[0], nil, st)
	// exceptional exits run the deferred calls; a recover() turns them into normal exits
	sub.finishPanics()
	if len(sub.rets) == 0 {
		return Val{}, nil
	}
	var sts []*State
	for _, r := range sub.rets {
		sts = append(sts, r.st)
	}
	nres := fn.Signature.Results().Len()
	merged := vc.mergeStates(sts, "ret."+fn.Name())
	if len(sub.rets) > 1 {
		merged = merged.Clone()
	}
	var results []Val
	for k := 0; k < nres; k++ {
		var acc Val
		for i := len(sub.rets) - 1; i >= 0; i-- {
			r := sub.rets[i]
			if i == len(sub.rets)-1 {
				acc = r.results[k]
				continue
			}
			if acc.Clo != nil || r.results[k].Clo != nil {
				fail("closure returned from inlined function %s", relFuncName(fn))
			}
			acc = TV(Ite(r.st.reach, r.results[k].T, acc.T))
		}
		if acc.IsT {
			acc = TV(vc.Define("ret."+fn.Name(), acc.T))
		}
		results = append(results, acc)
	}
	switch nres {
	case 0:
		return Val{}, merged
	case 1:
		return results[0], merged
	}
	return Val{Tuple: results}, merged
}

// ---------------------------------------------------------------------------
// pure evaluation (clauses, spec functions)

// evalPure evaluates a loop-free boolean/valued function symbolically in state st.
func (fr *Frame) evalPure(fn *ssa.Function, args []Val, st *State, oldVals map[ssa.Value]Val) (Val, *Frame) {
	return fr.evalPureOld(fn, args, st, oldVals, nil)
}

func (fr *Frame) evalPureOld(fn *ssa.Function, args []Val, st *State, oldVals map[ssa.Value]Val, oldFrame *Frame) (Val, *Frame) {
	vc := fr.vc
	sub := vc.newFrame(fn, fr)
	sub.pure = true
	sub.oldVals = oldVals
	if oldFrame != nil {
		sub.oldQuant = oldFrame.quantRec
	}
	for i, p := range fn.Params {
		sub.vals[p] = args[i]
	}
	ps := st.Clone()
	ps.reach = True
	ps.pure = true
	vc.dry++
	res, _ := sub.run(ps)
	vc.dry--
	return res, sub
}

// evalClauseWith evaluates a clause given a binding for its parameters.
func (fr *Frame) evalClauseWith(cl *Clause, lookup func(cp ClauseParam, old bool) Val, st *State, oldSt *State) Term {
	vc := fr.vc
	fn := vc.L.SSA.Func(cl.GoName)
	if fn == nil {
		fail("clause function %s missing", cl.GoName)
	}
	// Values a clause reads from memory are well-formed like any other loaded
	// value (they refer to allocated objects only); the facts are collected
	// during the pure evaluation and assumed in the state the clause is
	// evaluated in.
	if vc.wfCollect == nil && !st.pure && !fr.pure {
		var facts []Term
		vc.wfCollect = &facts
		defer func() {
			vc.wfCollect = nil
			seen := map[string]bool{}
			for _, f := range facts {
				if !seen[f.S] {
					seen[f.S] = true
					st.Assume(f)
				}
			}
		}()
	}
	var oldVals map[ssa.Value]Val
	var oldFrame *Frame
	if cl.HasOld {
		if oldSt == nil {
			oldSt = st
		}
		var oargs []Val
		for _, cp := range cl.Params {
			oargs = append(oargs, lookup(cp, true))
		}
		_, of := fr.evalPure(fn, oargs, oldSt, nil)
		oldVals = of.allVals()
		oldFrame = of
	}
	var args []Val
	for _, cp := range cl.Params {
		args = append(args, lookup(cp, false))
	}
	savedPre := fr.preState
	if oldSt != nil {
		fr.preState = oldSt
	}
	res, _ := fr.evalPureOld(fn, args, st, oldVals, oldFrame)
	fr.preState = savedPre
	if i := strings.Index(cl.Label, "/"); i > 0 && vc.ownClause[cl] && len(vc.defScopes) == 0 {
		// wrap in a constant of its own so that the clause can be switched off per proof group
		vc.decls = append(vc.decls, "")
		n := vc.freshName("cl." + mangle(cl.Label))
		vc.decls[len(vc.decls)-1] = fmt.Sprintf("(define-fun %s () Bool %s)", n, res.T.S)
		if vc.groupOf == nil {
			vc.groupOf = map[string]string{}
		}
		vc.groupOf[n] = cl.Label[:i]
		return Term{S: n, Sort: SBool}
	}
	return vc.Define("cl."+cl.Label, res.T)
}

func (fr *Frame) allVals() map[ssa.Value]Val { return fr.vals }

// evalClause: clause of the function under verification, evaluated in frame fr.
// results are the return values (for ensures); li the loop (for invariants).
func (fr *Frame) evalClause(cl *Clause, st *State, results []Val, li *loopInfo) Term {
	return fr.evalClause2(cl, st, fr.vc.entry, results, li)
}

func (fr *Frame) evalClause2(cl *Clause, st *State, oldSt *State, results []Val, li *loopInfo) Term {
	vc := fr.vc
	lookup := func(cp ClauseParam, old bool) Val {
		s := st
		if old && oldSt != nil {
			s = oldSt
		}
		switch cp.Kind {
		case "it_i":
			if li == nil || li.rangeIdx == nil {
				fail("it_i used outside a range loop invariant (%s)", cl.Label)
			}
			c := fr.cellOf[li.rangeIdx]
			if c == nil {
				return TV(IntLit(0))
			}
			ri, ok := st.cells[c]
			if !ok {
				ri = IntLit(-1)
			}
			return TV(Add(ri, IntLit(1)))
		case "it_o":
			// number of completed iterations of the enclosing range loop
			var outer *loopInfo
			if li != nil {
				for _, o := range fr.loops {
					if o != li && o.blocks[li.header] && (outer == nil || len(o.blocks) < len(outer.blocks)) {
						outer = o
					}
				}
			}
			if outer == nil || outer.rangeIdx == nil {
				fail("it_o used in a loop that is not nested in a range loop (%s)", cl.Label)
			}
			c := fr.cellOf[outer.rangeIdx]
			if c == nil {
				return TV(IntLit(0))
			}
			ri, ok := st.cells[c]
			if !ok {
				ri = IntLit(-1)
			}
			// the enclosing loop is in its (it_o+1)-th iteration: rangeindex already advanced
			return TV(ri)
		case "it_n":
			if li == nil || li.rangeLen == nil {
				fail("it_n used outside a range loop invariant (%s)", cl.Label)
			}
			return fr.val(li.rangeLen)
		case "result":
			if results == nil {
				fail("clause %s mentions result outside a postcondition", cl.Label)
			}
			return results[cp.Idx]
		case "name":
			return fr.bindIfaceName(cl, cp, results)
		}
		pos := token.Pos(cp.Pos)
		// named result?
		if results != nil {
			rs := fr.fn.Signature.Results()
			for k := 0; k < rs.Len(); k++ {
				if rs.At(k).Pos() == pos {
					return results[k]
				}
			}
		}
		preferCell := cl.Kind == "invariant" && !old
		if !preferCell {
			for _, p := range fr.fn.Params {
				if p.Pos() == pos {
					return fr.val(p)
				}
			}
		}
		// a local (or spilled parameter) of this function
		for _, b := range fr.fn.Blocks {
			for _, ins := range b.Instrs {
				if a, ok := ins.(*ssa.Alloc); ok && a.Pos() == pos && a.Comment == cp.Name {
					v, ok := fr.vals[a]
					if !ok {
						// not yet executed on this path: zero value
						return TV(vc.ss.Zero(vc.specialSort(pointee(a.Type()))))
					}
					l := fr.asLoc(v, pointee(a.Type()))
					vc.dry++
					t := fr.locLoad(l, s, token.NoPos)
					vc.dry--
					return TV(t)
				}
			}
		}
		for _, p := range fr.fn.Params {
			if p.Pos() == pos {
				return fr.val(p)
			}
		}
		for _, fv := range fr.fn.FreeVars {
			if fv.Pos() == pos && fv.Name() == cp.Name {
				v := fr.val(fv)
				l := fr.asLoc(v, pointee(fv.Type()))
				vc.dry++
				t := fr.locLoad(l, s, token.NoPos)
				vc.dry--
				return TV(t)
			}
		}
		fail("clause %s of %s: cannot bind %s", cl.Label, relFuncName(fr.fn), cp.Name)
		return Val{}
	}
	return fr.evalClauseWith(cl, lookup, st, oldSt)
}

// bindIfaceName: a clause of an interface contract evaluated for an
// implementing method: `self` is the receiver, parameters and results are
// bound by position against the interface method's signature.
func (fr *Frame) bindIfaceName(cl *Clause, cp ClauseParam, results []Val) Val {
	vc := fr.vc
	if vc.ct == nil || vc.ct.Implements == "" {
		fail("clause %s: name %s can only be bound for an interface contract", cl.Label, cp.Name)
	}
	key := vc.ct.Implements[6:]
	i := strings.LastIndex(key, ".")
	var it *types.Interface
	if o := vc.L.Pkg.Scope().Lookup(key[:i]); o != nil {
		it, _ = o.Type().Underlying().(*types.Interface)
	}
	if it == nil {
		fail("interface %s not found", key[:i])
	}
	var sig *types.Signature
	for k := 0; k < it.NumMethods(); k++ {
		if it.Method(k).Name() == key[i+1:] {
			sig = it.Method(k).Type().(*types.Signature)
		}
	}
	if sig == nil {
		fail("interface method %s not found", key)
	}
	params := fr.fn.Params
	if cp.Name == "self" {
		return fr.val(params[0])
	}
	for k := 0; k < sig.Params().Len(); k++ {
		if sig.Params().At(k).Name() == cp.Name || cp.Name == fmt.Sprintf("arg%d", k) {
			return fr.val(params[k+1])
		}
	}
	if results != nil {
		for k := 0; k < sig.Results().Len(); k++ {
			if sig.Results().At(k).Name() == cp.Name {
				return results[k]
			}
		}
	}
	fail("interface contract %s: cannot bind %s", key, cp.Name)
	return Val{}
}

// ---------------------------------------------------------------------------
// spec functions as SMT definitions

func (vc *VC) specName(fn *ssa.Function) string {
	n := fn.Name()
	n = strings.NewReplacer("[", "_", "]", "", ",", "_", " ", "", "*", "p", "/", "_", ".", "_").Replace(n)
	return "spec." + n
}

// ---------------------------------------------------------------------------
// Heaps read by spec functions. A slice parameter that is only indexed (or
// resliced and indexed) is passed together with its *row* — the backing array
// as a value — so that the function's value does not depend on the rest of
// the heap. Whole heaps are passed only for other reads.

type specCall struct {
	callee *ssa.Function
	// for each slice parameter of the callee: is the argument derived from one of our own slice parameters?
	sliceArgs []specSliceArg
}
type specSliceArg struct {
	derived bool
	heap    string
	sort    Sort
}

// paramDerived: v is (a reslice of) a load of a never-reassigned slice parameter of root.
func paramDerived(v ssa.Value, depth int) bool {
	if depth > 8 {
		return false
	}
	switch x := v.(type) {
	case *ssa.Parameter:
		_, ok := x.Type().Underlying().(*types.Slice)
		return ok
	case *ssa.Slice:
		return paramDerived(x.X, depth+1)
	case *ssa.UnOp:
		if x.Op != token.MUL {
			return false
		}
		switch c := x.X.(type) {
		case *ssa.Alloc:
			return spillOfSliceParam(c)
		case *ssa.FreeVar:
			// captured variable of the enclosing spec function
			fn := c.Parent()
			par := fn.Parent()
			if par == nil {
				return false
			}
			idx := -1
			for i, fv := range fn.FreeVars {
				if fv == c {
					idx = i
				}
			}
			for _, b := range par.Blocks {
				for _, ins := range b.Instrs {
					if mc, ok := ins.(*ssa.MakeClosure); ok && mc.Fn == fn && idx >= 0 && idx < len(mc.Bindings) {
						switch bnd := mc.Bindings[idx].(type) {
						case *ssa.Alloc:
							return spillOfSliceParam(bnd)
						case *ssa.FreeVar:
							return paramDerived(&ssa.UnOp{Op: token.MUL, X: bnd}, depth+1)
						}
					}
				}
			}
		}
	}
	return false
}

// spillOfSliceParam: the Alloc is the spill cell of a slice parameter and is stored to exactly once.
func spillOfSliceParam(a *ssa.Alloc) bool {
	fn := a.Parent()
	var param *ssa.Parameter
	for _, p := range fn.Params {
		if p.Pos() == a.Pos() && p.Name() == a.Comment {
			param = p
		}
	}
	if param == nil {
		return false
	}
	if _, ok := param.Type().Underlying().(*types.Slice); !ok {
		return false
	}
	stores := 0
	if refs := a.Referrers(); refs != nil {
		for _, r := range *refs {
			if s, ok := r.(*ssa.Store); ok && s.Addr == a {
				stores++
				if s.Val != param {
					return false
				}
			}
		}
	}
	return stores == 1
}

type specFacts struct {
	direct map[string]Sort
	calls  []specCall
}

func (vc *VC) specFactsOf(f *ssa.Function) *specFacts {
	if sf, ok := vc.specFactCache[f]; ok {
		return sf
	}
	sf := &specFacts{direct: map[string]Sort{}}
	vc.specFactCache[f] = sf
	// An opaque spec function is uninterpreted in proofs: its body only runs in
	// replay tests. What its value may depend on is what it is declared over —
	// its arguments and the ghost fields its body names — not the memory its
	// executable body happens to touch (a regexp match does not read the heap
	// of Go strings).
	opaque := vc.L.Opaque[originName(f)]
	var scan func(g *ssa.Function)
	scan = func(g *ssa.Function) {
		if g.Blocks == nil {
			return
		}
		for _, a := range g.AnonFuncs {
			scan(a)
		}
		for _, b := range g.Blocks {
			for _, ins := range b.Instrs {
				if opaque {
					if ci, ok := ins.(ssa.CallInstruction); !ok || ci.Common().StaticCallee() == nil || !vc.L.IsSpecFunc(ci.Common().StaticCallee()) || !strings.HasPrefix(originName(ci.Common().StaticCallee()), "ghost") {
						continue
					}
				}
				switch x := ins.(type) {
				case *ssa.UnOp:
					if x.Op != token.MUL {
						continue
					}
					root := x.X
					for {
						if fa, ok := root.(*ssa.FieldAddr); ok {
							root = fa.X
							continue
						}
						break
					}
					switch r := root.(type) {
					case *ssa.Alloc, *ssa.FreeVar:
					case *ssa.IndexAddr:
						if sl, ok := r.X.Type().Underlying().(*types.Slice); ok {
							if !paramDerived(r.X, 0) {
								sf.direct[vc.ss.HeapName(sl.Elem())] = HeapSort(vc.specialSort(sl.Elem()))
							}
						}
					default:
						pt := pointee(root.Type())
						sf.direct[vc.ss.HeapName(pt)] = HeapSort(vc.specialSort(pt))
					}
				case *ssa.Lookup:
					if mt, ok := x.X.Type().Underlying().(*types.Map); ok {
						n, s := vc.mapHeap(mt)
						sf.direct[n] = s
					}
				case *ssa.TypeAssert:
					if !types.IsInterface(x.AssertedType) {
						if _, isPtr := x.AssertedType.Underlying().(*types.Pointer); !isPtr {
							sf.direct[vc.boxName(x.AssertedType)] = Sort("(Array Int " + string(vc.specialSort(x.AssertedType)) + ")")
						}
					}
				case ssa.CallInstruction:
					c := x.Common().StaticCallee()
					if c == nil {
						continue
					}
					on := originName(c)
					if vc.L.IsSpecFunc(c) {
						if on == "ghostHas" {
							if nm, ok := constString(x.Common().Args[0]); ok {
								sf.direct["$g."+nm] = Sort("(Array Ptr (Array String Bool))")
							}
						}
						if on == "ghostInt" || on == "ghostIface" {
							if nm, ok := constString(x.Common().Args[0]); ok {
								if on == "ghostInt" {
									sf.direct["$g."+nm] = Sort("(Array Ptr Int)")
								} else {
									sf.direct["$g."+nm] = Sort("(Array Ptr Iface)")
								}
							}
						}
						if on == "mapVal" {
							if mt, ok := x.Common().Args[0].Type().Underlying().(*types.Map); ok {
								n, srt := vc.mapHeap(mt)
								sf.direct[n] = srt
							}
						}
						for _, gr := range intrinsicGhosts(on) {
							sf.direct[gr.name] = gr.sort
						}
					}
					var target *ssa.Function
					switch {
					case vc.L.IsSpecFunc(c):
						target = c
					case c.Pkg == vc.L.SSA:
						target = c
					default:
						if mf := vc.L.modelFunc(c); mf != nil {
							target = mf
						} else {
							for n, srt := range vc.modelReadHeaps(c.String()) {
								sf.direct[n] = srt
							}
						}
					}
					if target != nil {
						sc := specCall{callee: target}
						for i, p := range target.Params {
							if sl, ok := p.Type().Underlying().(*types.Slice); ok && i < len(x.Common().Args) {
								sc.sliceArgs = append(sc.sliceArgs, specSliceArg{derived: paramDerived(x.Common().Args[i], 0),
									heap: vc.ss.HeapName(sl.Elem()), sort: HeapSort(vc.specialSort(sl.Elem()))})
							}
						}
						sf.calls = append(sf.calls, sc)
					}
				}
			}
		}
	}
	scan(f)
	return sf
}

// specHeaps: whole heaps a spec function (transitively) needs, as a fixpoint.
func (vc *VC) specHeaps(fn *ssa.Function) []string {
	if r, ok := vc.specHeapCache[fn]; ok {
		return r
	}
	// collect reachable functions
	var all []*ssa.Function
	seen := map[*ssa.Function]bool{}
	var visit func(f *ssa.Function)
	visit = func(f *ssa.Function) {
		if seen[f] {
			return
		}
		seen[f] = true
		all = append(all, f)
		for _, c := range vc.specFactsOf(f).calls {
			visit(c.callee)
		}
	}
	visit(fn)
	sets := map[*ssa.Function]map[string]Sort{}
	for _, f := range all {
		sets[f] = map[string]Sort{}
		for k, v := range vc.specFactsOf(f).direct {
			sets[f][k] = v
		}
	}
	for changed := true; changed; {
		changed = false
		for _, f := range all {
			for _, c := range vc.specFactsOf(f).calls {
				for k, v := range sets[c.callee] {
					if _, ok := sets[f][k]; !ok {
						sets[f][k] = v
						changed = true
					}
				}
				for _, sa := range c.sliceArgs {
					if !sa.derived {
						if _, ok := sets[f][sa.heap]; !ok {
							sets[f][sa.heap] = sa.sort
							changed = true
						}
					}
				}
			}
		}
	}
	for _, f := range all {
		var out []string
		for k, srt := range sets[f] {
			if _, ok := vc.heapSorts[k]; !ok {
				vc.heapSorts[k] = srt
			}
			out = append(out, k)
		}
		sort.Strings(out)
		// results for functions inside a cycle are only final for the root; cache the root only
		if f == fn {
			vc.specHeapCache[f] = out
		}
	}
	return vc.specHeapCache[fn]
}

// rowFor: the backing array of slice s as a value.
func (vc *VC) rowFor(st *State, elem types.Type, s Term) Term {
	if r, ok := vc.rowOf[s.S]; ok {
		return r
	}
	_, h, es := vc.typedHeap(st, elem)
	return Sel(h, SArr(s), RowSort(es))
}

// specApp returns the application of a spec function, emitting its definition on first use.
func (vc *VC) specApp(fn *ssa.Function, args []Val, st *State) Term {
	name := vc.specName(fn)
	heaps := vc.specHeaps(fn)
	vc.ensureSpecDef(fn, name, heaps)
	var ts []Term
	for _, h := range heaps {
		ts = append(ts, vc.heapFor(st, h, vc.heapSorts[h]))
	}
	for i, a := range args {
		if !a.IsT {
			fail("non-term argument to spec function %s", fn.Name())
		}
		if sl, ok := fn.Params[i].Type().Underlying().(*types.Slice); ok {
			ts = append(ts, vc.rowFor(st, sl.Elem(), a.T))
		}
		ts = append(ts, a.T)
	}
	rs := vc.resultSort(fn)
	return App(rs, name, ts...)
}

func (vc *VC) resultSort(fn *ssa.Function) Sort {
	rs := fn.Signature.Results()
	if rs.Len() != 1 {
		fail("spec function %s must have exactly one result", fn.Name())
	}
	return vc.specialSort(rs.At(0).Type())
}

func (vc *VC) specParamSorts(fn *ssa.Function, heaps []string) []Sort {
	var as []Sort
	for _, h := range heaps {
		as = append(as, vc.heapSorts[h])
	}
	for _, p := range fn.Params {
		if sl, ok := p.Type().Underlying().(*types.Slice); ok {
			as = append(as, RowSort(vc.specialSort(sl.Elem())))
		}
		as = append(as, vc.specialSort(p.Type()))
	}
	return as
}

func (vc *VC) ensureSpecDef(fn *ssa.Function, name string, heaps []string) {
	if _, ok := vc.gdefs[name]; ok {
		return
	}
	if fn.Blocks == nil {
		// declared without body => uninterpreted
		vc.Uninterp(name, vc.specParamSorts(fn, heaps), vc.resultSort(fn))
		return
	}
	if isUninterpretedSpec(fn) || vc.L.Opaque[originName(fn)] || vc.opaqueHere(originName(fn)) {
		vc.Uninterp(name, vc.specParamSorts(fn, heaps), vc.resultSort(fn))
		if isUninterpretedSpec(fn) || vc.L.Opaque[originName(fn)] {
			vc.assumptions["uninterpreted spec function (constrained only by the listed axioms): "+fn.Name()] = true
		} else {
			vc.assumptions["definition hidden in some queries (opt opaque; hiding a definition can only lose proofs, not admit wrong ones): "+fn.Name()] = true
		}
		return
	}
	savedWf, savedFB := vc.wfCollect, vc.freshBase
	vc.wfCollect, vc.freshBase = nil, Term{}
	defer func() { vc.wfCollect, vc.freshBase = savedWf, savedFB }()
	g := &GDef{Name: name, Ret: vc.resultSort(fn)}
	vc.addGDef(g) // register first: recursion
	st := &State{pure: true, reach: True, cells: map[*Cell]Term{}, heaps: map[string]Term{}, armed: map[*ssa.Defer]Term{}}
	for _, h := range heaps {
		pn := "h!" + h
		g.Params = append(g.Params, fmt.Sprintf("(%s %s)", pn, vc.heapSorts[h]))
		st.heaps[h] = Term{S: pn, Sort: vc.heapSorts[h]}
	}
	var args []Val
	short := strings.TrimPrefix(name, "spec.")
	for i, p := range fn.Params {
		pn := fmt.Sprintf("x!%s!%d", short, i)
		s := vc.specialSort(p.Type())
		if sl, ok := p.Type().Underlying().(*types.Slice); ok {
			rn := fmt.Sprintf("r!%s!%d", short, i)
			rsrt := RowSort(vc.specialSort(sl.Elem()))
			g.Params = append(g.Params, fmt.Sprintf("(%s %s)", rn, rsrt))
			vc.rowOf[pn] = Term{S: rn, Sort: rsrt}
		}
		g.Params = append(g.Params, fmt.Sprintf("(%s %s)", pn, s))
		args = append(args, TV(Term{S: pn, Sort: s}))
	}
	vc.pushScope()
	root := &Frame{vc: vc, fn: fn, vals: map[ssa.Value]Val{}, pure: true, cellOf: map[*ssa.Alloc]*Cell{}, free: map[*ssa.FreeVar]Val{}}
	res, _ := root.evalPure(fn, args, st, nil)
	body := vc.popScope(res.T)
	g.Body = body.S
}

// opaqueHere: the contract under verification hides this definition (`opt opaque f g h`).
func (vc *VC) opaqueHere(name string) bool {
	if vc.ct == nil {
		return false
	}
	for _, n := range strings.Fields(vc.ct.Opts["opaque"]) {
		if n == name {
			return true
		}
	}
	return false
}

// isUninterpretedSpec: spec functions whose body is `panic("uninterpreted")`.
func isUninterpretedSpec(fn *ssa.Function) bool {
	if len(fn.Blocks) == 0 {
		return true
	}
	for _, ins := range fn.Blocks[0].Instrs {
		if p, ok := ins.(*ssa.Panic); ok {
			if mi, ok := p.X.(*ssa.MakeInterface); ok {
				if c, ok := mi.X.(*ssa.Const); ok && c.Value != nil && strings.Contains(c.Value.ExactString(), "uninterpreted") {
					return true
				}
			}
		}
	}
	return false
}

// ---------------------------------------------------------------------------
// intrinsics declared in /verif/spec/intrinsics.go

type ghostRef struct {
	name string
	sort Sort
}

func intrinsicGhosts(name string) []ghostRef {
	switch name {
	case "calls":
		return []ghostRef{{"$trace", STrace}}
	}
	return nil
}

func constString(v ssa.Value) (string, bool) {
	if c, ok := v.(*ssa.Const); ok && c.Value != nil && c.Value.Kind() == constant.String {
		return constant.StringVal(c.Value), true
	}
	return "", false
}

func (fr *Frame) intrinsic(fn *ssa.Function, args []Val, st *State, pos token.Pos, site ssa.CallInstruction) (Val, bool) {
	vc := fr.vc
	name := originName(fn)
	switch name {
	case "old":
		if fr.oldVals == nil {
			// evaluating the pre-state copy itself (or no old state): identity
			return args[0], true
		}
		if site != nil {
			if v, ok := fr.oldVals[site.Common().Args[0]]; ok {
				return v, true
			}
			// constants and parameters evaluate the same in both states
			return args[0], true
		}
		return args[0], true
	case "implies":
		return TV(Implies(args[0].T, args[1].T)), true
	case "forall", "exists":
		lo, hi := args[0].T, args[1].T
		clo := args[2].Clo
		if f, ok := site.Common().Args[2].(*ssa.Function); ok && clo == nil {
			clo = &Closure{Fn: f}
		}
		if clo == nil {
			fail("%s: quantifier body must be a function literal", vc.posOf(pos))
		}
		vc.pushScope()
		bv, res := fr.quantBody(site.(ssa.Instruction), clo, SInt, st, pos)
		body := vc.popScope(res.T)
		rng := And(Le(lo, bv), Lt(bv, hi))
		pats := vc.pickPatterns(body.S, bv.S)
		if name == "forall" {
			return TV(T(SBool, "(forall ((%s Int)) %s)", bv.S, withPatterns(Implies(rng, body).S, pats))), true
		}
		return TV(T(SBool, "(exists ((%s Int)) %s)", bv.S, withPatterns(And(rng, body).S, pats))), true
	case "forallStr", "existsStr", "forallInt", "existsInt", "forallProbe":
		// forallProbe: in proofs an unbounded quantifier over strings; when a
		// contract is executed (bounded stand-in) it ranges over a probe pool
		clo := args[0].Clo
		if f, ok := site.Common().Args[0].(*ssa.Function); ok && clo == nil {
			clo = &Closure{Fn: f}
		}
		if clo == nil {
			fail("%s: quantifier body must be a function literal", vc.posOf(pos))
		}
		srt := SString
		if strings.HasSuffix(name, "Int") {
			srt = SInt
		}
		vc.pushScope()
		bv, res := fr.quantBody(site.(ssa.Instruction), clo, srt, st, pos)
		body := vc.popScope(res.T)
		q := "forall"
		if strings.HasPrefix(name, "exists") {
			q = "exists"
		}
		return TV(T(SBool, "(%s ((%s %s)) %s)", q, bv.S, srt, withPatterns(body.S, vc.pickPatterns(body.S, bv.S)))), true
	case "fresh":
		// fresh(p): the object p points to was allocated during this activation
		a := args[0].T
		var arr Term
		switch a.Sort {
		case SPtr:
			arr = PArr(a)
		case SSlice:
			arr = SArr(a)
		case SInt:
			arr = a
		default:
			fail("fresh() of sort %s", a.Sort)
		}
		if vc.freshBase.S != "" {
			return TV(Le(vc.freshBase, arr)), true
		}
		return TV(Le(vc.alloc0, arr)), true
	case "calls":
		return TV(vc.ghost(st, "$trace", STrace)), true
	case "traceCall":
		return TV(App(STrace, "tsnoc", args[0].T, args[1].T, asPtr(args[2]), asPtr(args[3]), asPtr(args[4]))), true
	case "unchangedSinceRange":
		// the map has the value it had when the enclosing range over it started
		mt, ok := site.Common().Args[0].Type().Underlying().(*types.Map)
		if !ok {
			fail("%s: unchangedSinceRange needs a map", vc.posOf(pos))
		}
		mv, ms, _, _ := vc.mapGet(st, mt, args[0].T)
		return TV(Eq(mv, vc.ghost(st, "$rangemap."+string(ms), ms))), true
	case "visited":
		// visited(k): key k was already produced by the enclosing range over a string-keyed map
		return TV(Sel(vc.ghost(st, "$rangevisited", visitedSort), args[0].T, SBool)), true
	case "ghostHas":
		nm, ok := constString(site.Common().Args[0])
		if !ok {
			fail("%s: ghost field name must be a constant string", vc.posOf(pos))
		}
		g := vc.ghost(st, "$g."+nm, Sort("(Array Ptr (Array String Bool))"))
		return TV(Sel(Sel(g, asPtr(args[1]), Sort("(Array String Bool)")), args[2].T, SBool)), true
	case "ghostIntAtEntry":
		nm, ok := constString(site.Common().Args[0])
		if !ok {
			fail("%s: ghost field name must be a constant string", vc.posOf(pos))
		}
		src := fr.preState
		if src == nil {
			src = vc.entry
		}
		if src == nil {
			src = st
		}
		g := vc.ghost(src, "$g."+nm, Sort("(Array Ptr Int)"))
		return TV(Sel(g, asPtr(args[1]), SInt)), true
	case "ghostInt", "ghostIface":
		nm, ok := constString(site.Common().Args[0])
		if !ok {
			fail("%s: ghost field name must be a constant string", vc.posOf(pos))
		}
		vs := SInt
		if name == "ghostIface" {
			vs = SIface
		}
		g := vc.ghost(st, "$g."+nm, Sort("(Array Ptr "+string(vs)+")"))
		return TV(Sel(g, asPtr(args[1]), vs)), true
	case "same":
		return TV(Eq(args[0].T, args[1].T)), true
	case "verifTriggerSink":
		vc.lastTrigger = args[0].T
		return Val{}, true
	case "lastCallee":
		return TV(Eq(App(SFunc, "tfun", args[0].T), args[1].T)), true
	case "mapVal":
		mt, ok := site.Common().Args[0].Type().Underlying().(*types.Map)
		if !ok {
			fail("%s: mapVal of a non-map", vc.posOf(pos))
		}
		mv, _, _, _ := vc.mapGet(st, mt, args[0].T)
		return TV(mv), true
	case "sameSlice":
		return TV(Eq(args[0].T, args[1].T)), true
	case "sameStart":
		return TV(And(Eq(SArr(args[0].T), SArr(args[1].T)), Eq(SOff(args[0].T), SOff(args[1].T)))), true
	case "sameArray":
		return TV(Eq(SArr(args[0].T), SArr(args[1].T))), true
	case "ptrIndex":
		// index of pointer p within slice s (element index)
		return TV(Sub(PIdx(args[0].T), SOff(args[1].T))), true
	case "ptrInto":
		p, s := args[0].T, args[1].T
		return TV(And(Eq(PArr(p), SArr(s)), Le(SOff(s), PIdx(p)), Lt(PIdx(p), Add(SOff(s), SLen(s))))), true
	case "ptrAt":
		// pointer to element k of slice s (as produced by &s[k])
		s, k := args[0].T, args[1].T
		return TV(MkPtr(SArr(s), Add(SOff(s), k))), true
	}
	return Val{}, false
}

// ---------------------------------------------------------------------------
// builtins

func (fr *Frame) callBuiltin(x ssa.CallInstruction, b *ssa.Builtin, args []Val, st *State) (Val, *State) {
	vc := fr.vc
	switch b.Name() {
	case "len":
		a := args[0].T
		switch a.Sort {
		case SString:
			return TV(App(SInt, "str.len", a)), st
		case SSlice:
			return TV(SLen(a)), st
		case SInt: // map or chan
			return TV(fr.mapOrChanLen(x.Common().Args[0].Type(), a, st)), st
		}
	case "cap":
		a := args[0].T
		if a.Sort == SSlice {
			return TV(SCap(a)), st
		}
		if a.Sort == SInt {
			return TV(fr.chanCap(a, st)), st
		}
	case "append":
		return fr.builtinAppend(x, args, st)
	case "copy":
		return fr.builtinCopy(x, args, st)
	case "recover":
		return fr.builtinRecover(st), st
	case "print", "println":
		return Val{}, st
	case "delete":
		return fr.builtinDelete(x, args, st)
	case "ssa:wrapnilchk":
		return args[0], st
	case "ssa:deferstack":
		return TV(NilPtr), st
	}
	fail("%s: unsupported builtin %s", vc.posOf(x.Pos()), b.Name())
	return Val{}, nil
}

// builtinAppend models append exactly, including in-place growth (DESIGN §3.2).
func (fr *Frame) builtinAppend(x ssa.CallInstruction, args []Val, st *State) (Val, *State) {
	vc := fr.vc
	s := args[0].T
	t := args[1].T
	elemT := x.Common().Args[0].Type().Underlying().(*types.Slice).Elem()
	if bt, ok := x.Common().Args[1].Type().Underlying().(*types.Basic); ok && bt.Info()&types.IsString != 0 {
		fail("%s: append([]byte, string...) not modelled", vc.posOf(x.Pos()))
	}
	name, h, es := vc.typedHeap(st, elemT)
	n := SLen(t)
	newLen := vc.Define("alen", Add(SLen(s), n))
	fits := vc.Define("fits", Le(newLen, SCap(s)))
	single := isSingleton(x.Common().Args[1])
	srcRow := Sel(h, SArr(t), RowSort(es))
	oldRow := Sel(h, SArr(s), RowSort(es))
	// element accessors (so that quantified facts about the operands match)
	elemFn := "elem." + name
	vc.Uninterp(elemFn, []Sort{RowSort(es), SSlice, SInt}, es,
		fmt.Sprintf("(forall ((r %s) (s Slice) (i Int)) (! (= (%s r s i) (select r (+ (soff s) i))) :pattern ((%s r s i))))", RowSort(es), elemFn, elemFn))
	srcAt := func(k string) string { return fmt.Sprintf("(%s %s %s %s)", elemFn, srcRow.S, t.S, k) }
	oldAt := func(k string) string { return fmt.Sprintf("(%s %s %s %s)", elemFn, oldRow.S, s.S, k) }
	// in-place case
	var inRow Term
	if single {
		inRow = Sto(oldRow, Add(SOff(s), SLen(s)), Sel(srcRow, SOff(t), es))
	} else {
		inRow = vc.Fresh("row.in", RowSort(es))
		j := "j!" + fmt.Sprint(vc.fresh)
		lo := Add(SOff(s), SLen(s))
		ax := T(SBool, "(forall ((%s Int)) (! (= (select %s %s) (ite (and (<= %s %s) (< %s (+ %s %s))) %s (select %s %s))) :pattern ((select %s %s))))",
			j, inRow.S, j, lo.S, j, j, lo.S, n.S, srcAt(fmt.Sprintf("(- %s %s)", j, lo.S)), oldRow.S, j, inRow.S, j)
		st.Assume(ax)
	}
	// reallocation case
	id := vc.newObject(st)
	var reRow Term
	reRow = vc.Fresh("row.re", RowSort(es))
	{
		j := "j!" + fmt.Sprint(vc.fresh)
		ax := T(SBool, "(forall ((%s Int)) (! (=> (and (<= 0 %s) (< %s %s)) (= (select %s %s) %s)) :pattern ((select %s %s))))",
			j, j, j, SLen(s).S, reRow.S, j, oldAt(j), reRow.S, j)
		st.Assume(ax)
		if single {
			st.Assume(Eq(Sel(reRow, SLen(s), es), Sel(srcRow, SOff(t), es)))
		} else {
			ax2 := T(SBool, "(forall ((%s Int)) (! (=> (and (<= %s %s) (< %s (+ %s %s))) (= (select %s %s) %s)) :pattern ((select %s %s))))",
				j, SLen(s).S, j, j, SLen(s).S, n.S, reRow.S, j, srcAt(fmt.Sprintf("(- %s %s)", j, SLen(s).S)), reRow.S, j)
			st.Assume(ax2)
		}
	}
	newCap := vc.Fresh("acap", SInt)
	st.Assume(Le(newLen, newCap))
	inSlice := MkSlice(SArr(s), SOff(s), newLen, SCap(s))
	reSlice := MkSlice(id, IntLit(0), newLen, newCap)
	res := vc.Define("app", Ite(fits, inSlice, reSlice))
	// appending nothing to a nil slice yields nil; append(s) with n == 0 keeps s
	nh := Ite(fits, Sto(h, SArr(s), inRow), Sto(h, id, reRow))
	// frame: in-place growth writes into the backing array of s
	fr.frameCheckArr(st, elemT, SArr(s), fits, x.Pos())
	st.heaps[name] = vc.Define(name, nh)
	// bridge (a consequence of the two cases above, stated over the element
	// accessor so that witnesses found in the old slice carry over to the
	// result and back): the old elements are the first elements of the result
	{
		newRow := Sel(st.heaps[name], SArr(res), RowSort(es))
		j := "j!" + fmt.Sprint(vc.fresh)
		vc.fresh++
		newAt := func(k string) string { return fmt.Sprintf("(%s %s %s %s)", elemFn, newRow.S, res.S, k) }
		var pats []string
		for _, p := range []string{newAt(j), oldAt(j)} {
			if vc.patternOKDeep(p) {
				pats = append(pats, ":pattern ("+p+")")
			}
		}
		if len(pats) > 0 {
			st.Assume(T(SBool, "(forall ((%s Int)) (! (=> (and (<= 0 %s) (< %s %s)) (= %s %s)) %s))",
				j, j, j, SLen(s).S, newAt(j), oldAt(j), strings.Join(pats, " ")))
		}
		if single {
			st.Assume(T(SBool, "(= %s %s)", newAt(SLen(s).S), Sel(srcRow, SOff(t), es).S))
		} else {
			// ... and the appended elements follow them, in order
			k := "j!" + fmt.Sprint(vc.fresh)
			vc.fresh++
			at := newAt(k)
			src := srcAt(fmt.Sprintf("(- %s %s)", k, SLen(s).S))
			if vc.patternOKDeep(at) {
				st.Assume(T(SBool, "(forall ((%s Int)) (! (=> (and (<= %s %s) (< %s %s)) (= %s %s)) :pattern (%s)))",
					k, SLen(s).S, k, k, newLen.S, at, src, at))
			}
			k2 := "j!" + fmt.Sprint(vc.fresh)
			vc.fresh++
			sat := srcAt(k2)
			if vc.patternOKDeep(sat) {
				st.Assume(T(SBool, "(forall ((%s Int)) (! (=> (and (<= 0 %s) (< %s %s)) (= %s %s)) :pattern (%s)))",
					k2, k2, k2, n.S, newAt(fmt.Sprintf("(+ %s %s)", SLen(s).S, k2)), sat, sat))
			}
		}
	}
	return TV(res), st
}

// isSingleton: the variadic argument is a literal one-element slice.
func isSingleton(v ssa.Value) bool {
	sl, ok := v.(*ssa.Slice)
	if !ok || sl.Low != nil || sl.High != nil {
		return false
	}
	al, ok := sl.X.(*ssa.Alloc)
	if !ok {
		return false
	}
	arr, ok := pointee(al.Type()).Underlying().(*types.Array)
	return ok && arr.Len() == 1
}

func (fr *Frame) builtinCopy(x ssa.CallInstruction, args []Val, st *State) (Val, *State) {
	fail("%s: copy not modelled", fr.vc.posOf(x.Pos()))
	return Val{}, nil
}

// ---------------------------------------------------------------------------
// contract calls

type modItem struct {
	heapType types.Type
	ptr      Term
	fields   []int // nil = whole object
	elems    bool  // all elements of a slice's backing array
	slice    Term
	ghost    string
	mapType  *types.Map
	cb       bool
	cbType   types.Type
	headers  bool
}

func (fr *Frame) callContract(fn *ssa.Function, ct *Contract, args []Val, st *State, pos token.Pos) (Val, *State) {
	vc := fr.vc
	rel := relFuncName(fn)
	for _, a := range args {
		if !a.IsT {
			fail("%s: non-term argument in call of %s", vc.posOf(pos), rel)
		}
	}
	byPos := map[token.Pos]Val{}
	for i, p := range fn.Params {
		byPos[p.Pos()] = args[i]
	}
	mk := func(results []Val) func(cp ClauseParam, old bool) Val {
		return func(cp ClauseParam, old bool) Val {
			switch cp.Kind {
			case "ghostkey":
				for i, p := range fn.Params {
					if p.Name() == cp.Name {
						return args[i]
					}
				}
			case "result":
				if results == nil {
					fail("precondition of %s mentions result", rel)
				}
				return results[cp.Idx]
			case "var":
				if v, ok := byPos[token.Pos(cp.Pos)]; ok {
					return v
				}
				if results != nil {
					rs := fn.Signature.Results()
					for i := 0; i < rs.Len(); i++ {
						if rs.At(i).Pos() == token.Pos(cp.Pos) {
							return results[i]
						}
					}
				}
			}
			fail("contract of %s: cannot bind %s at call site", rel, cp.Name)
			return Val{}
		}
	}
	fr.callSiteObligations(rel, fn, args, st, pos)
	return fr.callByContract(rel, fn.Name(), ct, fn.Signature.Results(), mk, st, pos)
}

// callSiteObligations: call-site clauses registered by the function under
// verification for the statically called package function rel.
func (fr *Frame) callSiteObligations(rel string, fn *ssa.Function, args []Val, st *State, pos token.Pos) {
	vc := fr.vc
	if vc.ct == nil || vc.dry != 0 || fr.pure {
		return
	}
	for _, cl := range vc.ct.CallSites[rel] {
		g := fr.evalCallSite(cl, vc.funcValue(fn), args, st)
		vc.callCount++
		vc.fired(cl)
		vc.curClauseProps = cl.Props
		vc.Oblige("callsite", fmt.Sprintf("%s#%d.%s", fn.Name(), vc.callCount, cl.Label), pos, st, g, cl.Src)
		vc.curClauseProps = nil
		// proved as an obligation of its own, then available to what follows (a cut point)
		st.Assume(g)
	}
}

// callByContract: assert the precondition, apply the frame, assume the postcondition.
func (fr *Frame) callByContract(rel, short string, ct *Contract, rs *types.Tuple, mk func(results []Val) func(cp ClauseParam, old bool) Val, st *State, pos token.Pos) (Val, *State) {
	vc := fr.vc
	vc.callees[rel] = true
	if ct.Trusted != "" {
		vc.assumptions["contract:"+rel+" ("+ct.Trusted+")"] = true
	}
	vc.callCount++
	k := vc.callCount
	var results []Val
	for _, cl := range ct.Requires {
		g := fr.evalClauseWith(cl, mk(nil), st, st)
		vc.Oblige("call-pre", fmt.Sprintf("call%d.%s.%s", k, short, cl.Label), pos, st, g, "precondition of "+rel+": "+cl.Src)
		st.Assume(g)
	}
	pre := st.Clone()
	// havoc what the callee may modify
	items := fr.modItems(ct, mk(nil), pre)
	fr.havocItems(st, items, pos)
	// ghost counters advanced by the call itself
	for _, gi := range ct.GhostInc {
		key := mk(nil)(ClauseParam{Name: gi[1], Kind: "ghostkey"}, false)
		gname := "$g." + gi[0]
		g := vc.ghost(st, gname, Sort("(Array Ptr Int)"))
		vc.setGhost(st, gname, Sto(g, asPtr(key), Add(Sel(g, asPtr(key), SInt), IntLit(1))))
	}
	// objects the callee allocates
	a := vc.allocTerm(st)
	na := vc.Fresh("alloc", SInt)
	st.Assume(Le(a, na))
	vc.setGhost(st, "$alloc", na)
	// results
	refResults := false
	for i := 0; i < rs.Len(); i++ {
		t := rs.At(i).Type()
		srt := vc.specialSort(t)
		r := vc.Fresh("r."+short, srt)
		if wf := vc.wfValue(r, t, st); wf.S != "true" {
			st.Assume(wf)
			refResults = true
		}
		results = append(results, TV(r))
	}
	// Memory allocated by the callee is unknown to the caller: the heaps the
	// postcondition talks about are havocked above the old allocation mark.
	nonGhost := false
	for _, it := range items {
		if it.ghost == "" || it.mapType != nil {
			nonGhost = true
		}
	}
	// (Not needed for soundness: ids at or above the old allocation mark were
	// never read by the caller, so constraining their contents through the
	// callee's postcondition only fixes values that were arbitrary. Kept as an
	// option for experiments.)
	if vc.regionHavocOn && (refResults || nonGhost) {
		fr.regionHavoc(st, ct, a)
	}
	if !ct.NoPanic {
		// exceptional exit
		pb := vc.Fresh("panics."+short, SBool)
		ps := st.Clone()
		ps.Assume(pb)
		for _, cl := range ct.Signals {
			ps.Assume(fr.evalClauseWith(cl, mk(nil), ps, pre))
		}
		pv := vc.Fresh("panicval", SIface)
		ps.Assume(Not(Eq(App(SInt, "itag", pv), IntLit(0))))
		fr.raise(ps, pv, pos, "panic in "+rel)
		st.Assume(Not(pb))
	}
	// fresh(x) in the callee's postcondition: allocated during this call
	savedBase := vc.freshBase
	vc.freshBase = a
	for _, cl := range ct.Ensures {
		st.Assume(fr.evalClauseWith(cl, mk(results), st, pre))
	}
	vc.freshBase = savedBase
	st.reach = vc.Define("r.call", st.reach)
	switch len(results) {
	case 0:
		return Val{}, st
	case 1:
		return results[0], st
	}
	return Val{Tuple: results}, st
}

// regionHavoc: for every heap read by the callee's postconditions, objects
// with an id at or above mark (allocated by the callee) get unknown contents.
func (fr *Frame) regionHavoc(st *State, ct *Contract, mark Term) {
	vc := fr.vc
	heaps := map[string]bool{}
	for _, cl := range append(append([]*Clause{}, ct.Ensures...), ct.Signals...) {
		if fn := vc.L.SSA.Func(cl.GoName); fn != nil {
			for _, h := range vc.specHeaps(fn) {
				heaps[h] = true
			}
		}
	}
	for _, h := range sortedKeys(heaps) {
		srt := vc.heapSorts[h]
		if !strings.HasPrefix(string(srt), "(Array Int ") {
			continue
		}
		cur := vc.heapFor(st, h, srt)
		nh := vc.Fresh("rh."+h, srt)
		st.Assume(T(SBool, "(forall ((a!r Int)) (! (=> (< a!r %s) (= (select %s a!r) (select %s a!r))) :pattern ((select %s a!r))))", mark.S, nh.S, cur.S, nh.S))
		st.heaps[h] = nh
	}
}

// modItems evaluates the modifies clauses of ct.
func (fr *Frame) modItems(ct *Contract, lookup func(cp ClauseParam, old bool) Val, st *State) []modItem {
	vc := fr.vc
	var items []modItem
	for _, cl := range ct.Modifies {
		for _, it := range cl.modParsed {
			switch it.kind {
			case "ghost":
				items = append(items, modItem{ghost: it.name})
				continue
			case "nothing":
				continue
			case "headers":
				items = append(items, modItem{headers: true})
				continue
			}
			fn := vc.L.SSA.Func(it.goName)
			if fn == nil {
				fail("modifies function %s missing", it.goName)
			}
			var args []Val
			for _, cp := range it.params {
				args = append(args, lookup(cp, false))
			}
			res, _ := fr.evalPure(fn, args, st, nil)
			rt := fn.Signature.Results().At(0).Type()
			switch it.kind {
			case "ptr":
				items = append(items, modItem{heapType: pointee(rt), ptr: res.T})
			case "field":
				pt := pointee(rt)
				stt := pt.Underlying().(*types.Struct)
				var idx []int
				for _, fname := range it.fields {
					found := false
					for i := 0; i < stt.NumFields(); i++ {
						if stt.Field(i).Name() == fname {
							idx = append(idx, i)
							found = true
						}
					}
					if !found {
						fail("modifies: no field %s in %s", fname, pt)
					}
				}
				items = append(items, modItem{heapType: pt, ptr: res.T, fields: idx})
			case "elems":
				et := rt.Underlying().(*types.Slice).Elem()
				items = append(items, modItem{heapType: et, elems: true, slice: res.T})
			case "cb":
				items = append(items, modItem{cb: true, ptr: res.T, cbType: rt})
			case "map":
				mt := rt.Underlying().(*types.Map)
				name, _ := vc.mapHeap(mt)
				items = append(items, modItem{ghost: "map:" + name, ptr: res.T, mapType: mt})
			}
		}
	}
	return items
}

func (fr *Frame) havocItems(st *State, items []modItem, pos token.Pos) {
	vc := fr.vc
	for _, it := range items {
		switch {
		case it.cb:
			st.Assume(Not(Eq(PArr(it.ptr), IntLit(0))))
			fr.havocCallbackObject(it.cbType, it.ptr, st)
			continue
		case it.headers:
			fr.havocCallbackGhost(st)
			continue
		case it.mapType != nil:
			name, hs, ms, _, _ := vc.mapParts(it.mapType)
			h := vc.heapFor(st, name, hs)
			nv := vc.Fresh("hv.map", ms)
			st.Assume(Le(IntLit(0), App(SInt, "msize."+string(ms), nv)))
			st.heaps[name] = vc.Define(name, Sto(h, it.ptr, nv))
			if !vc.noFrame && vc.dry == 0 {
				vc.safeCount["frame"]++
				vc.Oblige("frame", "mapcall#"+itoa(vc.safeCount["frame"]), pos, st, fr.mapFrameGoal(name, it.ptr), "callee may modify a map outside this function's frame ("+name+")")
			}
		case it.ghost != "":
			srt, ok := vc.heapSorts[it.ghost]
			if !ok {
				srt = ghostSort(it.ghost)
			}
			vc.heapFor(st, it.ghost, srt)
			st.heaps[it.ghost] = vc.Fresh("hv."+it.ghost, srt)
		case it.elems:
			name, h, es := vc.typedHeap(st, it.heapType)
			nr := vc.Fresh("hv.row", RowSort(es))
			st.heaps[name] = vc.Define(name, Sto(h, SArr(it.slice), nr))
		case it.fields == nil:
			es := vc.specialSort(it.heapType)
			nv := vc.Fresh("hv."+string(es), es)
			if wf := vc.wfValue(nv, it.heapType, st); wf.S != "true" {
				st.Assume(wf)
			}
			vc.heapStoreRaw(st, it.heapType, it.ptr, nv)
		default:
			old := vc.heapLoad(st, it.heapType, it.ptr)
			nv := old
			stt := it.heapType.Underlying().(*types.Struct)
			for _, f := range it.fields {
				ft := stt.Field(f).Type()
				fv := vc.Fresh("hv."+stt.Field(f).Name(), vc.specialSort(ft))
				if wf := vc.wfValue(fv, ft, st); wf.S != "true" {
					st.Assume(wf)
				}
				nv = vc.ss.FieldSet(nv, f, fv)
			}
			vc.heapStoreRaw(st, it.heapType, it.ptr, nv)
		}
		// the caller's own frame must allow these writes
		if it.plain() {
			fr.frameCheckItem(st, it, pos)
		}
	}
}

var ifaceGhosts = map[string]bool{}
var setGhosts = map[string]bool{}

func ghostSort(name string) Sort {
	switch name {
	case "$trace":
		return STrace
	}
	if strings.HasPrefix(name, "$g.") {
		if ifaceGhosts[name[3:]] {
			return Sort("(Array Ptr Iface)")
		}
		if setGhosts[name[3:]] {
			return Sort("(Array Ptr (Array String Bool))")
		}
		return Sort("(Array Ptr Int)")
	}
	return SInt
}

// funcVarInit: for a package-level variable of function type that is stored to exactly once in the
// whole package, and that in the package initializer with a function, that function; nil otherwise.
func (L *Loaded) funcVarInit(g *ssa.Global) *ssa.Function {
	if L.funcVarCache == nil {
		L.funcVarCache = map[*ssa.Global]*ssa.Function{}
		stores := map[*ssa.Global]int{}
		inits := map[*ssa.Global]*ssa.Function{}
		var visit func(f *ssa.Function)
		seen := map[*ssa.Function]bool{}
		visit = func(f *ssa.Function) {
			if f == nil || seen[f] {
				return
			}
			seen[f] = true
			for _, b := range f.Blocks {
				for _, ins := range b.Instrs {
					if s, ok := ins.(*ssa.Store); ok {
						if gg, ok := s.Addr.(*ssa.Global); ok {
							stores[gg]++
							if fn, ok := s.Val.(*ssa.Function); ok && f.Name() == "init" {
								inits[gg] = fn
							}
						}
					}
				}
			}
			for _, a := range f.AnonFuncs {
				visit(a)
			}
		}
		for _, m := range L.SSA.Members {
			switch x := m.(type) {
			case *ssa.Function:
				visit(x)
			case *ssa.Type:
				for _, t := range []types.Type{x.Type(), types.NewPointer(x.Type())} {
					ms := L.SSA.Prog.MethodSets.MethodSet(t)
					for i := 0; i < ms.Len(); i++ {
						visit(L.SSA.Prog.MethodValue(ms.At(i)))
					}
				}
			}
		}
		for gg, fn := range inits {
			if stores[gg] == 1 {
				if _, ok := gg.Type().(*types.Pointer).Elem().Underlying().(*types.Signature); ok {
					L.funcVarCache[gg] = fn
				}
			}
		}
	}
	return L.funcVarCache[g]
}
