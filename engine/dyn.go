package main

// Dynamic calls: interface method invocations and calls through function values.

import (
	"fmt"
	"sort"
	"go/token"
	"go/types"
	"strings"

	"golang.org/x/tools/go/ssa"
)

func ifaceKey(t types.Type, method string) string {
	return "iface:" + shortTypeName(t) + "." + method
}

func (fr *Frame) callInvoke(x ssa.CallInstruction, com *ssa.CallCommon, st *State) (Val, *State) {
	vc := fr.vc
	recv := fr.val(com.Value).T
	var args []Val
	for _, a := range com.Args {
		args = append(args, fr.val(a))
	}
	it := com.Value.Type()
	mname := com.Method.Name()
	vc.Safe("nil-iface", x.Pos(), st, Not(Eq(App(SInt, "itag", recv), IntLit(0))), "method call on nil interface ("+shortTypeName(it)+"."+mname+")")
	st.Assume(Not(Eq(App(SInt, "itag", recv), IntLit(0))))
	key := ifaceKey(it, mname)
	switch key {
	case "iface:log.StdLogger.Print", "iface:log.StdLogger.Printf", "iface:log.StdLogger.Println":
		vc.assumptions["model:log.StdLogger methods have no effect on modelled state"] = true
		return Val{}, st
	case "iface:error.Error":
		vc.Uninterp("error.text", []Sort{SIface}, SString)
		return TV(App(SString, "error.text", recv)), st
	}
	if ct := vc.L.CF.Contracts[key]; ct != nil {
		return fr.callIfaceContract(x, key, 6, ct, com.Method.Type().(*types.Signature), recv, args, st)
	}
	fail("%s: interface method call %s has no interface contract", vc.posOf(x.Pos()), key[6:])
	return Val{}, nil
}

// callIfaceContract: assumed/proved contract of an interface method or
// external function; clause parameters are bound by name (`self` is the receiver).
func (fr *Frame) callIfaceContract(x ssa.CallInstruction, fullKey string, plen int, ct *Contract, sig *types.Signature, recv Term, args []Val, st *State) (Val, *State) {
	key := fullKey[plen:]
	mk := func(results []Val) func(cp ClauseParam, old bool) Val {
		return func(cp ClauseParam, old bool) Val {
			if cp.Kind == "result" {
				if results == nil {
					fail("precondition of %s mentions result", key)
				}
				return results[cp.Idx]
			}
			if cp.Name == "self" {
				return TV(recv)
			}
			ps := sig.Params()
			for i := 0; i < ps.Len(); i++ {
				if ps.At(i).Name() == cp.Name || cp.Name == fmt.Sprintf("arg%d", i) {
					return args[i]
				}
			}
			if results != nil {
				rs := sig.Results()
				for i := 0; i < rs.Len(); i++ {
					if rs.At(i).Name() == cp.Name {
						return results[i]
					}
				}
			}
			fail("interface contract %s: cannot bind %s", key, cp.Name)
			return Val{}
		}
	}
	// call-site obligations registered by the function under verification
	if vc := fr.vc; vc.ct != nil && vc.dry == 0 {
		for _, cl := range vc.ct.CallSites[fullKey] {
			lookup := func(cp ClauseParam, old bool) Val {
				if cp.Name == "self" {
					return TV(recv)
				}
				if strings.HasPrefix(cp.Name, "arg") && len(cp.Name) == 4 {
					if k := int(cp.Name[3] - '0'); k < len(args) {
						return args[k]
					}
				}
				return fr.bindLocal(cl, cp, st)
			}
			g := fr.evalClauseWith(cl, lookup, st, vc.entry)
			vc.callCount++
			vc.fired(cl)
			vc.curClauseProps = cl.Props
			vc.Oblige("callsite", fmt.Sprintf("%s#%d.%s", key, vc.callCount, cl.Label), x.Pos(), st, g, cl.Src)
			vc.curClauseProps = nil
		}
	}
	return fr.callByContract(fullKey, key, ct, sig.Results(), mk, st, x.Pos())
}

// asPtr encodes an argument as a Ptr for the trace.
func asPtr(v Val) Term {
	if !v.IsT {
		return NilPtr
	}
	switch v.T.Sort {
	case SPtr:
		return v.T
	case SIface:
		return App(SPtr, "ibox", v.T)
	case SInt:
		return MkPtr(v.T, IntLit(0))
	case SFunc:
		return App(SPtr, "fenv", v.T)
	}
	return NilPtr
}

func (vc *VC) traceAppend(st *State, f Term, args []Val) {
	tr := vc.ghost(st, "$trace", STrace)
	var as [3]Term
	for i := range as {
		as[i] = NilPtr
		if i < len(args) {
			as[i] = asPtr(args[i])
		}
	}
	vc.setGhost(st, "$trace", App(STrace, "tsnoc", tr, f, as[0], as[1], as[2]))
}

// callDynamic: call through a function value whose target is not known
// (filters, route functions, handlers, conditions …), DESIGN §3.5.
func (fr *Frame) callDynamic(x ssa.CallInstruction, f Term, args []Val, st *State) (Val, *State) {
	vc := fr.vc
	pos := x.Pos()
	sig := x.Common().Value.Type().Underlying().(*types.Signature)
	if fr.pure && !pureCallbackTypes[shortTypeName(x.Common().Value.Type())] {
		fail("%s: dynamic call in a pure context", vc.posOf(pos))
	}
	vc.Safe("nil-func", pos, st, Not(Eq(App(SInt, "fcode", f), IntLit(0))), "call of nil function value")
	st.Assume(Not(Eq(App(SInt, "fcode", f), IntLit(0))))
	tname := shortTypeName(x.Common().Value.Type())
	// call-site obligations registered for this function type
	if vc.ct != nil {
		for _, cl := range vc.ct.CallSites[tname] {
			g := fr.evalCallSite(cl, f, args, st)
			vc.callCount++
			vc.fired(cl)
			vc.curClauseProps = cl.Props
			vc.Oblige("callsite", fmt.Sprintf("%s#%d.%s", tname, vc.callCount, cl.Label), pos, st, g, cl.Src)
			vc.curClauseProps = nil
		}
	}
	// pure callbacks (A-PURE): conditions and predicates are uninterpreted functions
	if pureCallbackTypes[tname] {
		vc.assumptions["A-PURE: "+tname+" callbacks are deterministic and effect-free"] = true
		rs := sig.Results()
		if rs.Len() != 1 {
			fail("pure callback type %s must have one result", tname)
		}
		rsrt := vc.specialSort(rs.At(0).Type())
		name := "cb." + mangle(tname)
		sorts := []Sort{SFunc}
		ts := []Term{f}
		for _, a := range args {
			sorts = append(sorts, a.T.Sort)
			ts = append(ts, a.T)
		}
		vc.Uninterp(name, sorts, rsrt)
		return TV(App(rsrt, name, ts...)), st
	}
	vc.assumptions["A-CB: user callbacks do not reconfigure the container, service or route they run under"] = true
	vc.traceAppend(st, f, args)
	// havoc the callback frame
	fr.havocCallbackFrame(x, args, st)
	// results are unconstrained
	var results []Val
	rs := sig.Results()
	for i := 0; i < rs.Len(); i++ {
		t := rs.At(i).Type()
		r := vc.Fresh("cbr", vc.specialSort(t))
		if wf := vc.wfValue(r, t, st); wf.S != "true" {
			st.Assume(wf)
		}
		results = append(results, TV(r))
	}
	// exceptional successor
	pb := vc.Fresh("cbpanics", SBool)
	ps := st.Clone()
	ps.Assume(pb)
	pv := vc.Fresh("panicval", SIface)
	ps.Assume(Not(Eq(App(SInt, "itag", pv), IntLit(0))))
	fr.raise(ps, pv, pos, "panic in callback")
	st.Assume(Not(pb))
	st.reach = vc.Define("r.cb", st.reach)
	switch len(results) {
	case 0:
		return Val{}, st
	case 1:
		return results[0], st
	}
	return Val{Tuple: results}, st
}

var pureCallbackTypes = map[string]bool{
	"RouteSelectionConditionFunction": true,
	"func(origin string) bool":        true,
}

// havocCallbackFrame: what an unknown callback may change (DESIGN §3.5 iii).
func (fr *Frame) havocCallbackFrame(x ssa.CallInstruction, args []Val, st *State) {
	vc := fr.vc
	a := vc.allocTerm(st)
	na := vc.Fresh("alloc", SInt)
	st.Assume(Le(a, na))
	vc.setGhost(st, "$alloc", na)
	for i, av := range args {
		if !av.IsT || av.T.Sort != SPtr {
			continue
		}
		fr.havocCallbackObject(x.Common().Args[i].Type(), av.T, st)
	}
	fr.havocCallbackGhost(st)
}

// havocCallbackObject: a framework object handed to a callback may change in
// every field except the ones listed in callbackKeeps.
func (fr *Frame) havocCallbackObject(at types.Type, p Term, st *State) {
	vc := fr.vc
	pt, ok := at.Underlying().(*types.Pointer)
	if !ok {
		return
	}
	named, ok := pt.Elem().(*types.Named)
	if !ok {
		return
	}
	stt, ok := named.Underlying().(*types.Struct)
	if !ok {
		return
	}
	if named.Obj().Pkg() == nil || named.Obj().Pkg().Path() != pkgPath {
		return
	}
	keep := callbackKeeps[named.Obj().Name()]
	old := vc.heapLoad(st, named, p)
	nv := old
	for f := 0; f < stt.NumFields(); f++ {
		if keep[stt.Field(f).Name()] {
			continue
		}
		ft := stt.Field(f).Type()
		fv := vc.Fresh("cb."+stt.Field(f).Name(), vc.specialSort(ft))
		if wf := vc.wfValue(fv, ft, st); wf.S != "true" {
			st.Assume(wf)
		}
		nv = vc.ss.FieldSet(nv, f, fv)
	}
	vc.heapStoreRaw(st, named, p, nv)
}

// havocCallbackGhost: header maps and the ghost view of writers may change;
// so may every object of a type with a representation invariant (the
// invariant is re-assumed when such an object is read again).
func (fr *Frame) havocCallbackGhost(st *State) {
	vc := fr.vc
	var tns []string
	for tn := range vc.L.CF.TypeInvs {
		tns = append(tns, tn)
	}
	sort.Strings(tns)
	for _, tn := range tns {
		if o := vc.L.Pkg.Scope().Lookup(tn); o != nil {
			t := o.Type()
			name := vc.ss.HeapName(t)
			es := vc.specialSort(t)
			srt := HeapSort(es)
			old := vc.heapFor(st, name, srt)
			nh := vc.Fresh("cb."+name, srt)
			st.heaps[name] = nh
			// fields that only constructors write keep their values
			if info := vc.ss.Struct(es); info != nil {
				mut := map[string]bool{}
				for _, f := range vc.L.CF.TypeInvMutable[tn] {
					mut[f] = true
				}
				var eqs []string
				for _, f := range info.Fields {
					if !mut[f.Name] {
						eqs = append(eqs, fmt.Sprintf("(= (%s (select (select %s a!t) i!t)) (%s (select (select %s a!t) i!t)))", f.Sel, nh.S, f.Sel, old.S))
					}
				}
				if len(eqs) > 0 {
					st.Assume(T(SBool, "(forall ((a!t Int) (i!t Int)) (! (and %s) :pattern ((select (select %s a!t) i!t))))", strings.Join(eqs, " "), nh.S))
				}
			}
		}
	}
	name, hs := vc.mapHeap(vc.headerMapType())
	vc.heapFor(st, name, hs)
	st.heaps[name] = vc.Fresh("cb.hdr", hs)
	for g, srt := range vc.heapSorts {
		if strings.HasPrefix(g, "$g.") && !strings.HasPrefix(g, "$g.lock.") && !strings.HasPrefix(g, "$g.mux") && !strings.HasPrefix(g, "$g.own.") {
			vc.heapFor(st, g, srt)
		}
	}
	var gs []string
	for g := range st.heaps {
		if strings.HasPrefix(g, "$g.") && !strings.HasPrefix(g, "$g.lock.") && !strings.HasPrefix(g, "$g.mux") && !strings.HasPrefix(g, "$g.own.") {
			gs = append(gs, g)
		}
	}
	sort.Strings(gs)
	for _, g := range gs {
		st.heaps[g] = vc.Fresh("cb"+g, vc.heapSorts[g])
	}
}

// fields a callback cannot change: unexported fields that are set once by the
// framework (language guarantee), plus A-CB for exported configuration.
var callbackKeeps = map[string]map[string]bool{
	"FilterChain": {"Filters": true, "Target": true, "ParameterDocs": true, "Operation": true},
	"Request":     {"selectedRoute": true},
	"Response":    {"routeProduces": true, "requestAccept": true},
}

func (fr *Frame) evalCallSite(cl *Clause, f Term, args []Val, st *State) Term {
	lookup := func(cp ClauseParam, old bool) Val {
		switch {
		case cp.Name == "callee":
			return TV(f)
		case strings.HasPrefix(cp.Name, "arg") && len(cp.Name) == 4:
			k := int(cp.Name[3] - '0')
			if k < len(args) {
				return args[k]
			}
		case cp.Kind == "it_i":
			// in a call-site clause: the index of the current iteration of the innermost range loop
			// around the call (= the number of iterations completed before it)
			top := fr
			for top.parent != nil && top.fn != fr.vc.fn {
				top = top.parent
			}
			var in *loopInfo
			for _, o := range top.loops {
				if o.rangeIdx != nil && top.curBlock != nil && o.blocks[top.curBlock] && (in == nil || len(o.blocks) < len(in.blocks)) {
					in = o
				}
			}
			if in == nil {
				fail("call-site clause %s: it_i used at a call outside a range loop", cl.Label)
			}
			c := top.cellOf[in.rangeIdx]
			if c == nil {
				return TV(IntLit(0))
			}
			ri, ok := st.cells[c]
			if !ok {
				ri = IntLit(-1)
			}
			return TV(ri)
		}
		return fr.bindLocal(cl, cp, st)
	}
	return fr.evalClauseWith(cl, lookup, st, fr.vc.entry)
}

// bindLocal resolves a clause parameter against the current frame (used by call-site clauses).
func (fr *Frame) bindLocal(cl *Clause, cp ClauseParam, st *State) Val {
	vc := fr.vc
	pos := token.Pos(cp.Pos)
	top := fr
	for top.parent != nil && top.fn != vc.fn {
		top = top.parent
	}
	for _, p := range top.fn.Params {
		if p.Pos() == pos {
			return top.val(p)
		}
	}
	for _, b := range top.fn.Blocks {
		for _, ins := range b.Instrs {
			if a, ok := ins.(*ssa.Alloc); ok && a.Pos() == pos && a.Comment == cp.Name {
				v, ok := top.vals[a]
				if !ok {
					return TV(vc.ss.Zero(vc.specialSort(pointee(a.Type()))))
				}
				vc.dry++
				t := top.locLoad(top.asLoc(v, pointee(a.Type())), st, token.NoPos)
				vc.dry--
				return TV(t)
			}
		}
	}
	for _, fv := range top.fn.FreeVars {
		if fv.Pos() == pos && fv.Name() == cp.Name {
			vc.dry++
			t := top.locLoad(top.asLoc(top.val(fv), pointee(fv.Type())), st, token.NoPos)
			vc.dry--
			return TV(t)
		}
	}
	fail("call-site clause %s: cannot bind %s", cl.Label, cp.Name)
	return Val{}
}
