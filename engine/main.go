package main

import (
	"encoding/json"
	"flag"
	"fmt"
	"os"
	"path/filepath"
	"sort"
	"strings"
	"time"
)

func main() {
	if len(os.Args) < 2 {
		fmt.Fprintln(os.Stderr, "usage: govc <verify|check|list|gen> [flags]")
		os.Exit(2)
	}
	cmd := os.Args[1]
	fs := flag.NewFlagSet(cmd, flag.ExitOnError)
	repo := fs.String("repo", "/repo", "repository working tree")
	verif := fs.String("verif", "/verif", "verification directory")
	fn := fs.String("func", "", "function(s) to verify, comma separated (default: all contracts)")
	prop := fs.String("property", "", "property id")
	tier := fs.String("tier", "quick", "quick|thorough")
	secs := fs.Int("t", 10, "solver time limit per obligation (s)")
	keep := fs.Bool("keep", false, "keep SMT files")
	verbose := fs.Bool("v", false, "verbose")
	only := fs.String("only", "", "only obligations whose name contains this")
	evOut := fs.String("evidence", "", "evidence file (default /verif/evidence/<property>.json)")
	fs.Parse(os.Args[2:])
	switch cmd {
	case "replay":
		// govc replay <file>: print the record and, when it carries a test, run it again on /repo's working tree
		if fs.NArg() < 1 {
			fmt.Fprintln(os.Stderr, "usage: govc replay <replay file>")
			os.Exit(2)
		}
		b, err := os.ReadFile(fs.Arg(0))
		if err != nil {
			fmt.Fprintln(os.Stderr, err)
			os.Exit(2)
		}
		var rec map[string]interface{}
		if err := json.Unmarshal(b, &rec); err != nil {
			fmt.Fprintln(os.Stderr, err)
			os.Exit(2)
		}
		src, _ := rec["replay_test_go"].(string)
		delete(rec, "replay_test_go")
		out, _ := json.MarshalIndent(rec, "", " ")
		fmt.Println(string(out))
		if src == "" {
			fmt.Println("(no executable replay in this record: the violation was reported without a failing input)")
			os.Exit(0)
		}
		L, err := Load(*repo, *verif)
		if err != nil {
			fmt.Fprintln(os.Stderr, err)
			os.Exit(2)
		}
		pass, o := runOverlayTest(L, *verif, src, false)
		fmt.Println("--- replay on the current working tree ---")
		fmt.Println(trimOutput(o))
		if pass {
			fmt.Println("replay: the recorded input no longer violates the clause on this tree")
			os.Exit(0)
		}
		fmt.Println("replay: the recorded input still violates the clause")
		os.Exit(1)
	case "gen":
		L, err := Load(*repo, *verif)
		if err != nil {
			fmt.Fprintln(os.Stderr, err)
			os.Exit(2)
		}
		fmt.Print(L.GenSrc)
	case "verify":
		t0 := time.Now()
		L, err := Load(*repo, *verif)
		if err != nil {
			fmt.Fprintln(os.Stderr, err)
			os.Exit(2)
		}
		fmt.Printf("loaded in %.1fs\n", time.Since(t0).Seconds())
		var names []string
		if *fn != "" {
			names = strings.Split(*fn, ",")
		} else {
			for _, n := range L.CF.Order {
				if L.CF.Contracts[n].HasProp(*prop) {
					names = append(names, n)
				}
			}
		}
		var results []*FuncResult
		for _, n := range names {
			ct := L.CF.Contracts[n]
			if ct != nil && ct.Trusted != "" {
				fmt.Printf("%-60s TRUSTED (%s)\n", n, ct.Trusted)
				continue
			}
			if strings.HasPrefix(n, "iface:") || strings.HasPrefix(n, "ext:") {
				fmt.Printf("%-60s INTERFACE CONTRACT (proved for the methods that `implements` it)\n", n)
				continue
			}
			r := VerifyFunction(L, n, ct, *prop)
			if *only != "" {
				var keepO []*Obligation
				for _, o := range r.Obligations {
					if strings.Contains(o.Name, *only) {
						keepO = append(keepO, o)
					}
				}
				r.Obligations = keepO
			}
			results = append(results, r)
		}
		work := filepath.Join(*verif, ".work", fmt.Sprintf("run-%d", os.Getpid()))
		Discharge(results, work, *secs, 8, 0)
		bad := 0
		for _, r := range results {
			if r.Error != "" {
				fmt.Printf("%-60s ERROR %s\n", r.Func, r.Error)
				bad++
			}
			nd := 0
			for _, o := range r.Obligations {
				ok := o.Status == "discharged"
				if o.MustFail {
					ok = o.Status != "discharged"
				}
				if ok {
					nd++
				}
			}
			fmt.Printf("%-60s %d/%d\n", r.Func, nd, len(r.Obligations))
			os := append([]*Obligation{}, r.Obligations...)
			sort.SliceStable(os, func(i, j int) bool { return os[i].Name < os[j].Name })
			for _, o := range r.Obligations {
				ok := o.Status == "discharged"
				if o.MustFail {
					ok = o.Status != "discharged"
				}
				if !ok || *verbose {
					fmt.Printf("   %-8s %-70s %s %.2fs %s %s\n", statusWord(o), o.Name, o.Solver, o.Seconds, o.Pos, o.Desc)
					if !ok {
						bad++
						if o.Model != nil {
							for k, v := range o.Model {
								fmt.Printf("        %s = %s\n", k, v)
							}
						} else if o.Status != "failed" {
							fmt.Printf("        %s\n", firstLines(o.Output, 3))
						}
					}
				}
			}
		}
		if !*keep {
			os.RemoveAll(work)
		} else {
			fmt.Println("SMT files in", work)
		}
		if bad > 0 {
			os.Exit(1)
		}
	case "check":
		os.Exit(runCheck(*repo, *verif, *prop, *tier, *secs, *keep, *evOut))
	default:
		fmt.Fprintln(os.Stderr, "unknown command", cmd)
		os.Exit(2)
	}
}

func statusWord(o *Obligation) string {
	if o.MustFail {
		if o.Status == "failed" {
			return "ok(sat)"
		}
		if o.Status != "discharged" {
			return "ok(" + o.Status + ")"
		}
		return "VACUOUS"
	}
	return o.Status
}

func firstLines(s string, n int) string {
	ls := strings.Split(strings.TrimSpace(s), "\n")
	if len(ls) > n {
		ls = ls[:n]
	}
	return strings.Join(ls, " | ")
}

