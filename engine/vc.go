package main

// VC: per-function verification context — fresh names, definitional
// constants, obligations, global (spec-function) definitions.

import (
	"regexp"
	"fmt"
	"go/token"
	"go/types"
	"sort"
	"strings"

	"golang.org/x/tools/go/ssa"
)

type Obligation struct {
	Verdicts string // thorough tier: verdict of every solver that answered within the grace period
	Name   string
	Kind   string // post, pre, inv-init, inv-step, safe, call-pre, frame, guard, lemma, vacuity
	Func   string
	Pos    string
	Desc   string
	Reach  Term
	Goal   Term
	NDecls int
	Props  []string
	// filled by the solver stage
	Status  string // discharged | failed | unknown | timeout | error
	Solver  string
	Seconds float64
	Size    int
	Output  string
	Model   map[string]string
	Inputs  []InputVar // values to extract from a model
	MustFail bool      // vacuity canary: expected to be sat
	ClauseProps []string // the clause is only part of these properties' checks (empty: all of the function's)
}

type InputVar struct {
	Name string // Go-level name
	Term Term
	Type types.Type
}

type vcError struct{ msg string }

func (e vcError) Error() string { return e.msg }

func fail(format string, args ...interface{}) {
	panic(vcError{fmt.Sprintf(format, args...)})
}

type GDef struct {
	Name   string
	Params []string // "(name Sort)"
	Ret    Sort
	Body   string
	Rec    bool
	Decl   string // for uninterpreted: full declaration text
	Axioms []string
}

type VC struct {
	L      *Loaded
	ss     *Sorts
	fn     *ssa.Function
	ct     *Contract
	fresh  int
	decls  []string
	// call-site clauses that applied to at least one call (vacuity guard)
	firedCS map[*Clause]bool
	// proof groups: definitional constants of the own clauses labelled "G/label";
	// an obligation of group G is proved without the hypotheses of other groups
	groupOf   map[string]string
	ownClause map[*Clause]bool
	// allocation mark fresh() is relative to while a callee's postcondition is assumed
	freshBase Term
	// well-formedness facts of values loaded while a clause is evaluated
	wfCollect *[]Term
	// memo for patternOKDeep
	defBodies  map[string]string
	defBodiesN int
	defOK      map[string]bool
	preDecls []string
	defScopes []*[]string // let scopes for quantifier / spec-function bodies
	obls   []*Obligation
	dry    int
	gdefs  map[string]*GDef
	gorder []string
	heapSorts map[string]Sort
	specBusy  map[*ssa.Function]bool
	assumptions map[string]bool // A-* and model names touched
	inlined   map[string]bool
	callees   map[string]bool
	prop      string
	safetyOn  bool
	safeCount map[string]int
	callCount int
	alloc0    Term
	entryHeaps map[string]Term
	entry     *State
	inputs    []InputVar
	noFrame   bool
	regionHavocOn bool
	guardsOn  bool
	inTypeInv bool
	lastTrigger Term
	curClauseProps []string
	modSet    []modItem
	merges    map[string][]string // merged reach constant -> its edge conditions
	rowOf     map[string]Term     // slice term -> its backing array as a value (spec parameters)
	specFactCache map[*ssa.Function]*specFacts
	specHeapCache map[*ssa.Function][]string
}

func NewVC(L *Loaded, fn *ssa.Function, ct *Contract) *VC {
	vc := &VC{L: L, ss: NewSorts(), fn: fn, ct: ct, gdefs: map[string]*GDef{}, heapSorts: map[string]Sort{},
		specBusy: map[*ssa.Function]bool{}, assumptions: map[string]bool{}, inlined: map[string]bool{}, callees: map[string]bool{},
		safeCount: map[string]int{}, entryHeaps: map[string]Term{}, merges: map[string][]string{}, rowOf: map[string]Term{}, specFactCache: map[*ssa.Function]*specFacts{}, specHeapCache: map[*ssa.Function][]string{}}
	return vc
}

func (vc *VC) freshName(hint string) string {
	vc.fresh++
	hint = strings.Map(func(r rune) rune {
		if r >= 'a' && r <= 'z' || r >= 'A' && r <= 'Z' || r >= '0' && r <= '9' || r == '_' || r == '.' {
			return r
		}
		return '_'
	}, hint)
	return fmt.Sprintf("%s!%d", hint, vc.fresh)
}

// Fresh declares an unconstrained constant.
func (vc *VC) Fresh(hint string, s Sort) Term {
	n := vc.freshName(hint)
	if len(vc.defScopes) > 0 {
		// inside a quantifier/spec body fresh constants would have to be
		// existentially bound; not supported there.
		fail("fresh constant %s needed inside a pure spec context", hint)
	}
	vc.decls = append(vc.decls, fmt.Sprintf("(declare-const %s %s)", n, s))
	return Term{S: n, Sort: s}
}

// Define names a term (keeps later terms small).
func (vc *VC) Define(hint string, t Term) Term {
	if len(t.S) < 24 || isAtom(t.S) {
		return t
	}
	return vc.DefineAlways(hint, t)
}

func (vc *VC) DefineAlways(hint string, t Term) Term {
	if isAtom(t.S) {
		return t
	}
	n := vc.freshName(hint)
	if k := len(vc.defScopes); k > 0 {
		*vc.defScopes[k-1] = append(*vc.defScopes[k-1], fmt.Sprintf("(%s %s)", n, t.S))
		return Term{S: n, Sort: t.Sort, Parts: t.Parts}
	}
	vc.decls = append(vc.decls, fmt.Sprintf("(define-fun %s () %s %s)", n, t.Sort, t.S))
	return Term{S: n, Sort: t.Sort, Parts: t.Parts}
}

func isAtom(s string) bool { return !strings.ContainsAny(s, " (") }

func (vc *VC) pushScope() *[]string {
	sc := &[]string{}
	vc.defScopes = append(vc.defScopes, sc)
	return sc
}
func (vc *VC) popScope(body Term) Term {
	k := len(vc.defScopes)
	sc := vc.defScopes[k-1]
	vc.defScopes = vc.defScopes[:k-1]
	s := body.S
	for i := len(*sc) - 1; i >= 0; i-- {
		s = "(let (" + (*sc)[i] + ") " + s + ")"
	}
	return Term{S: s, Sort: body.Sort}
}

func (vc *VC) posOf(p token.Pos) string {
	if !p.IsValid() {
		return ""
	}
	pp := vc.L.Fset.Position(p)
	return fmt.Sprintf("%s:%d:%d", strings.TrimPrefix(pp.Filename, vc.L.RepoDir+"/"), pp.Line, pp.Column)
}

// Oblige records a proof obligation reach ==> goal.
func (vc *VC) Oblige(kind, label string, pos token.Pos, st *State, goal Term, desc string) *Obligation {
	if vc.dry > 0 {
		return nil
	}
	if strings.HasPrefix(vc.ct.funcName(), "lemma:") {
		o := &Obligation{Name: vc.ct.Func + "#" + kind + ":" + label, Kind: kind, Func: vc.ct.Func, Desc: desc,
			Reach: st.reach, Goal: goal, NDecls: len(vc.decls), Props: vc.ct.Props}
		vc.obls = append(vc.obls, o)
		return o
	}
	if goal.S == "true" || st.reach.S == "false" {
		// trivially discharged; still counted so that obligation counts are stable
	}
	name := relFuncName(vc.fn) + "#" + kind
	if label != "" {
		name += ":" + label
	}
	o := &Obligation{Name: name, Kind: kind, Func: relFuncName(vc.fn), Pos: vc.posOf(pos), Desc: desc,
		Reach: st.reach, Goal: goal, NDecls: len(vc.decls), Inputs: vc.inputs, ClauseProps: vc.curClauseProps}
	if vc.ct != nil {
		o.Props = vc.ct.Props
	}
	vc.obls = append(vc.obls, o)
	return o
}

// Safety obligation with automatic numbering per kind.
func (vc *VC) Safe(kind string, pos token.Pos, st *State, goal Term, desc string) {
	if !vc.safetyOn {
		return
	}
	if vc.dry > 0 {
		return
	}
	vc.safeCount[kind]++
	label := fmt.Sprintf("%s#%d", kind, vc.safeCount[kind])
	vc.Oblige("safe", label, pos, st, goal, desc)
}

// ---------------------------------------------------------------------------
// script generation with cone-of-influence pruning

var tokenSplit = func(r rune) bool {
	return r == ' ' || r == '(' || r == ')' || r == '\n' || r == '\t'
}

func declName(d string) string {
	// (declare-const NAME ...) | (define-fun NAME ...) | (declare-fun NAME ...)
	f := strings.Fields(d)
	if len(f) < 2 {
		return ""
	}
	return f[1]
}

func (vc *VC) Script(o *Obligation, style string) string {
	return vc.ScriptWith(o, style, nil)
}

func (vc *VC) ScriptWith(o *Obligation, style string, extra []string) string {
	// cone of influence over per-function declarations
	need := map[string]bool{}
	var work []string
	addTokens := func(s string) {
		inStr := false
		start := -1
		for i := 0; i <= len(s); i++ {
			var c byte = ' '
			if i < len(s) {
				c = s[i]
			}
			if inStr {
				if c == '"' {
					inStr = false
				}
				continue
			}
			if c == '"' {
				inStr = true
				start = -1
				continue
			}
			if c == ' ' || c == '(' || c == ')' || c == '\n' || c == '\t' {
				if start >= 0 {
					tok := s[start:i]
					if !need[tok] {
						need[tok] = true
						work = append(work, tok)
					}
					start = -1
				}
			} else if start < 0 {
				start = i
			}
		}
	}
	addTokens(o.Reach.S)
	addTokens(o.Goal.S)
	for _, e := range extra {
		addTokens(e)
	}
	byName := map[string]string{}
	for _, d := range vc.preDecls {
		byName[declName(d)] = d
	}
	for _, d := range vc.decls[:o.NDecls] {
		byName[declName(d)] = d
	}
	{
		// Layering: an obligation without a group is proved from the ungrouped
		// clauses alone; an obligation of group G additionally keeps the clauses
		// of G and of its sub-groups G.x. (Dropping hypotheses is always sound.)
		g := obligationGroup(o.Name)
		inGoal := map[string]bool{}
		for _, tok := range strings.FieldsFunc(o.Goal.S, tokenSplit) {
			inGoal[tok] = true
		}
		for n, og := range vc.groupOf {
			if inGoal[n] {
				continue // never switch off what is to be proved
			}
			if g == "" || (og != g && !strings.HasPrefix(og, g+".")) {
				if _, ok := byName[n]; ok {
					byName[n] = fmt.Sprintf("(define-fun %s () Bool true)", n)
				}
			}
		}
	}
	for len(work) > 0 {
		tok := work[len(work)-1]
		work = work[:len(work)-1]
		if d, ok := byName[tok]; ok {
			addTokens(d)
		} else if g, ok := vc.gdefs[tok]; ok {
			addTokens(g.Body)
			addTokens(g.Decl)
			for _, p := range g.Params {
				addTokens(p)
			}
			for _, a := range g.Axioms {
				addTokens(a)
			}
		}
	}
	var b strings.Builder
	if style == "cvc5" {
		b.WriteString("(set-option :produce-models true)\n(set-logic ALL)\n")
	} else {
		b.WriteString("(set-option :produce-models true)\n")
	}
	b.WriteString(vc.ss.Preamble())
	b.WriteString("(declare-datatypes ((Trace 0)) (((tnil) (tsnoc (tinit Trace) (tfun Func) (ta0 Ptr) (ta1 Ptr) (ta2 Ptr)))))\n")
	// global definitions: uninterpreted first, then spec functions in
	// dependency order (non-recursive ones as macros, recursive SCCs together)
	var defs []*GDef
	for _, n := range vc.gorder {
		g := vc.gdefs[n]
		if !need[n] {
			continue
		}
		if g.Decl != "" {
			b.WriteString(g.Decl)
			b.WriteByte('\n')
		} else {
			defs = append(defs, g)
		}
	}
	// `opt opaque.G f`: in the queries of proof group G (and its sub-groups) the
	// spec function f is only declared, not defined (hiding a definition can lose
	// proofs, never admit wrong ones)
	hidden := map[string]bool{}
	if vc.ct != nil {
		og := obligationGroup(o.Name)
		for k, v := range vc.ct.Opts {
			if strings.HasPrefix(k, "opaque.") && og != "" {
				hg := strings.TrimPrefix(k, "opaque.")
				if og == hg || strings.HasPrefix(og, hg+".") {
					for _, f := range strings.Fields(v) {
						hidden["spec."+f] = true
					}
				}
			}
		}
	}
	for _, scc := range vc.sccOrder(defs) {
		if len(scc) == 1 && !scc[0].Rec {
			g := scc[0]
			if hidden[g.Name] {
				var sorts []string
				for _, p := range g.Params {
					p = strings.TrimSuffix(strings.TrimPrefix(p, "("), ")")
					if i := strings.Index(p, " "); i >= 0 {
						sorts = append(sorts, p[i+1:])
					}
				}
				fmt.Fprintf(&b, "(declare-fun %s (%s) %s)\n", g.Name, strings.Join(sorts, " "), g.Ret)
				continue
			}
			fmt.Fprintf(&b, "(define-fun %s (%s) %s %s)\n", g.Name, strings.Join(g.Params, " "), g.Ret, g.Body)
			continue
		}
		b.WriteString("(define-funs-rec (\n")
		for _, g := range scc {
			fmt.Fprintf(&b, "  (%s (%s) %s)\n", g.Name, strings.Join(g.Params, " "), g.Ret)
		}
		b.WriteString(") (\n")
		for _, g := range scc {
			fmt.Fprintf(&b, "  %s\n", g.Body)
		}
		b.WriteString("))\n")
	}
	for _, n := range vc.gorder {
		g := vc.gdefs[n]
		if !need[n] {
			continue
		}
		for _, a := range g.Axioms {
			fmt.Fprintf(&b, "(assert %s)\n", a)
		}
	}
	for _, d := range vc.preDecls {
		if need[declName(d)] {
			b.WriteString(d)
			b.WriteByte('\n')
		}
	}
	for _, d := range vc.decls[:o.NDecls] {
		if n := declName(d); need[n] {
			b.WriteString(byName[n]) // a clause of another proof group is switched off here
			b.WriteByte('\n')
		}
	}
	fmt.Fprintf(&b, "(assert %s)\n", o.Reach.S)
	for _, e := range extra {
		fmt.Fprintf(&b, "(assert %s)\n", e)
	}
	fmt.Fprintf(&b, "(define-fun goal!chk () Bool %s)\n", o.Goal.S)
	b.WriteString("(assert (not goal!chk))\n")
	b.WriteString("(check-sat)\n")
	// a `sat` is only believed if the goal is false in the model the solver offers: with recursive
	// definitions and quantifiers a solver may answer sat from a partial interpretation
	b.WriteString("(get-value (goal!chk))\n")
	if len(o.Inputs) > 0 {
		b.WriteString("(get-value (")
		for _, in := range o.Inputs {
			for _, t := range vc.inputTerms(in) {
				b.WriteString(t)
				b.WriteByte(' ')
			}
		}
		b.WriteString("))\n")
	}
	return b.String()
}

// inputTerms lists the terms whose model values describe an input.
func (vc *VC) inputTerms(in InputVar) []string {
	switch in.Term.Sort {
	case SInt, SBool, SString, SReal:
		return []string{in.Term.S}
	case SSlice:
		out := []string{SLen(in.Term).S}
		if sl, ok := in.Type.Underlying().(*types.Slice); ok {
			es := vc.ss.SortOf(sl.Elem())
			if es == SString || es == SInt || es == SBool {
				h := vc.entryHeaps[vc.ss.HeapName(sl.Elem())]
				if h.S != "" {
					for k := 0; k < 6; k++ {
						out = append(out, Sel(Sel(h, SArr(in.Term), RowSort(es)), Add(SOff(in.Term), IntLit(int64(k))), es).S)
					}
				}
			}
		}
		return out
	}
	return nil
}

// sccOrder returns the strongly connected components of the definition
// dependency graph, callees first (Tarjan).
func (vc *VC) sccOrder(defs []*GDef) [][]*GDef {
	byName := map[string]*GDef{}
	for _, g := range defs {
		byName[g.Name] = g
	}
	deps := map[*GDef][]*GDef{}
	for _, g := range defs {
		seen := map[string]bool{}
		for _, tok := range strings.FieldsFunc(g.Body, tokenSplit) {
			if d, ok := byName[tok]; ok && !seen[tok] {
				seen[tok] = true
				deps[g] = append(deps[g], d)
				if d == g {
					g.Rec = true
				}
			}
		}
	}
	index := map[*GDef]int{}
	low := map[*GDef]int{}
	on := map[*GDef]bool{}
	var stack []*GDef
	var out [][]*GDef
	n := 0
	var strong func(v *GDef)
	strong = func(v *GDef) {
		n++
		index[v], low[v] = n, n
		stack = append(stack, v)
		on[v] = true
		for _, w := range deps[v] {
			if index[w] == 0 {
				strong(w)
				if low[w] < low[v] {
					low[v] = low[w]
				}
			} else if on[w] && index[w] < low[v] {
				low[v] = index[w]
			}
		}
		if low[v] == index[v] {
			var comp []*GDef
			for {
				w := stack[len(stack)-1]
				stack = stack[:len(stack)-1]
				on[w] = false
				comp = append(comp, w)
				if w == v {
					break
				}
			}
			if len(comp) > 1 {
				for _, c := range comp {
					c.Rec = true
				}
			}
			out = append(out, comp)
		}
	}
	for _, g := range defs {
		if index[g] == 0 {
			strong(g)
		}
	}
	return out
}

// splitCases enumerates, for the path condition t, choices of one incoming
// edge at every merge point that t implies (merges occurring as conjuncts,
// transitively). Each case is a list of constants to assert; together the
// cases cover t. At most max cases are produced.
func (vc *VC) splitCases(o *Obligation, max int) [][]string {
	defs := map[string]string{}
	for _, d := range vc.decls[:o.NDecls] {
		if strings.HasPrefix(d, "(define-fun ") {
			f := strings.SplitN(d[12:len(d)-1], " ", 4)
			if len(f) == 4 {
				defs[f[0]] = f[3]
			}
		}
	}
	var cases func(t string, depth int) [][]string
	product := func(a, b [][]string) [][]string {
		if len(a)*len(b) > max {
			return a
		}
		var out [][]string
		for _, x := range a {
			for _, y := range b {
				out = append(out, append(append([]string{}, x...), y...))
			}
		}
		return out
	}
	cases = func(t string, depth int) [][]string {
		t = strings.TrimSpace(t)
		if depth > 40 {
			return [][]string{{}}
		}
		if isAtom(t) {
			if edges, ok := vc.merges[t]; ok {
				var out [][]string
				for _, e := range edges {
					for _, c := range cases(e, depth+1) {
						out = append(out, append([]string{e}, c...))
					}
				}
				if len(out) > max {
					return [][]string{{}}
				}
				return out
			}
			if d, ok := defs[t]; ok {
				return cases(d, depth+1)
			}
			return [][]string{{}}
		}
		if strings.HasPrefix(t, "(and ") {
			res := [][]string{{}}
			for _, a := range sexprArgs(t) {
				res = product(res, cases(a, depth+1))
			}
			return res
		}
		return [][]string{{}}
	}
	return cases(o.Reach.S, 0)
}

// sexprArgs splits "(f a b c)" into its arguments.
func sexprArgs(t string) []string {
	var out []string
	i := strings.IndexByte(t, ' ')
	if i < 0 {
		return nil
	}
	i++
	for i < len(t)-1 {
		for i < len(t)-1 && t[i] == ' ' {
			i++
		}
		if i >= len(t)-1 {
			break
		}
		if t[i] == '(' {
			j := matchClose(t, i)
			out = append(out, t[i:j+1])
			i = j + 1
		} else if t[i] == '"' {
			j := i + 1
			for j < len(t) && t[j] != '"' {
				j++
			}
			out = append(out, t[i:j+1])
			i = j + 1
		} else {
			j := i
			for j < len(t)-1 && t[j] != ' ' {
				j++
			}
			out = append(out, t[i:j])
			i = j
		}
	}
	return out
}

// pickPatterns chooses E-matching triggers for a quantifier over bv: the
// innermost applications of uninterpreted functions (opaque spec functions,
// elem.* accessors, callbacks) that have bv among their direct or nested
// arguments and contain no arithmetic on bv at the top.
func (vc *VC) pickPatterns(body string, bv string) []string {
	var pats []string
	seen := map[string]bool{}
	// positions of bv tokens
	for i := 0; i+len(bv) <= len(body); i++ {
		if body[i:i+len(bv)] != bv {
			continue
		}
		if i > 0 && !strings.ContainsRune(" ()", rune(body[i-1])) {
			continue
		}
		if j := i + len(bv); j < len(body) && !strings.ContainsRune(" ()", rune(body[j])) {
			continue
		}
		// walk outwards
		pos := i
		for {
			// find the opening paren that encloses pos
			depth := 0
			k := pos - 1
			for ; k >= 0; k-- {
				if body[k] == ')' {
					depth++
				} else if body[k] == '(' {
					if depth == 0 {
						break
					}
					depth--
				}
			}
			if k < 0 {
				break
			}
			end := matchClose(body, k)
			term := body[k : end+1]
			head := term[1:]
			if sp := strings.IndexAny(head, " )"); sp >= 0 {
				head = head[:sp]
			}
			g, ok := vc.gdefs[head]
			selectOnBv := head == "select" && strings.HasSuffix(term, " "+bv+")") && !strings.Contains(term[:len(term)-len(bv)-2], bv)
			if (ok && g.Decl != "" && !strings.HasPrefix(g.Decl, "(declare-datatypes")) || strings.HasPrefix(head, "elem.") || selectOnBv {
				if !strings.Contains(term, "(let ") && !seen[term] && vc.patternOKDeep(term) {
					seen[term] = true
					pats = append(pats, term)
				}
				break
			}
			if head == "let" || head == "forall" || head == "exists" {
				break
			}
			pos = k
		}
	}
	if len(pats) > 4 {
		pats = pats[:4]
	}
	return pats
}

// patternOKDeep: patternOK of the term with every definitional constant
// expanded, computed without building the expansion (which can be exponential
// in the depth of merged definitions).
func (vc *VC) patternOKDeep(term string) bool {
	if vc.defBodies == nil {
		vc.defBodies = map[string]string{}
		vc.defOK = map[string]bool{}
	}
	if vc.defBodiesN > len(vc.decls) {
		vc.defBodiesN = 0
		vc.defBodies = map[string]string{}
		vc.defOK = map[string]bool{}
	}
	for _, d := range vc.decls[vc.defBodiesN:] {
		if strings.HasPrefix(d, "(define-fun ") {
			f := strings.SplitN(d[12:len(d)-1], " ", 4)
			if len(f) == 4 {
				vc.defBodies[f[0]] = f[3]
			}
		}
	}
	vc.defBodiesN = len(vc.decls)
	var ok func(t string, depth int) bool
	ok = func(t string, depth int) bool {
		if !patternOK(t) || depth > 200 {
			return false
		}
		for _, tok := range strings.FieldsFunc(t, tokenSplit) {
			body, isDef := vc.defBodies[tok]
			if !isDef {
				continue
			}
			r, seen := vc.defOK[tok]
			if !seen {
				vc.defOK[tok] = false // cycles cannot occur, but stay safe
				r = ok(body, depth+1)
				vc.defOK[tok] = r
			}
			if !r {
				return false
			}
		}
		return true
	}
	return ok(term, 0)
}

func patternOK(t string) bool {
	for _, bad := range []string{"(not ", "(and ", "(or ", "(=> ", "(= ", "(ite ", "(< ", "(<= ", "(> ", "(>= ", "(forall ", "(exists ", "(distinct "} {
		if strings.Contains(t, bad) {
			return false
		}
	}
	return true
}

func withPatterns(body string, pats []string) string {
	if len(pats) == 0 {
		return body
	}
	var b strings.Builder
	b.WriteString("(! ")
	b.WriteString(body)
	for _, p := range pats {
		b.WriteString(" :pattern (")
		b.WriteString(p)
		b.WriteString(")")
	}
	b.WriteString(")")
	return b.String()
}

// expandDefs inlines the per-function definitional constants occurring in s,
// so that the text can be used as a global axiom.
func (vc *VC) expandDefs(s string) string {
	defs := map[string]string{}
	for _, d := range vc.decls {
		if strings.HasPrefix(d, "(define-fun ") {
			f := strings.SplitN(d[12:len(d)-1], " ", 4) // name () Sort body
			if len(f) == 4 {
				defs[f[0]] = f[3]
			}
		}
	}
	for iter := 0; iter < 50; iter++ {
		if len(s) > 4<<20 {
			fail("definition expansion exceeds 4 MB (merged definitions nested too deeply to be used in an axiom)")
		}
		changed := false
		var b strings.Builder
		i := 0
		for i < len(s) {
			c := s[i]
			if c == '"' {
				j := i + 1
				for j < len(s) && s[j] != '"' {
					j++
				}
				b.WriteString(s[i : j+1])
				i = j + 1
				continue
			}
			if c == ' ' || c == '(' || c == ')' {
				b.WriteByte(c)
				i++
				continue
			}
			j := i
			for j < len(s) && s[j] != ' ' && s[j] != '(' && s[j] != ')' {
				j++
			}
			tok := s[i:j]
			if body, ok := defs[tok]; ok {
				b.WriteString(body)
				changed = true
			} else {
				b.WriteString(tok)
			}
			i = j
		}
		s = b.String()
		if !changed {
			break
		}
	}
	return s
}

func (vc *VC) addGDef(g *GDef) {
	if _, ok := vc.gdefs[g.Name]; ok {
		return
	}
	vc.gdefs[g.Name] = g
	vc.gorder = append(vc.gorder, g.Name)
}

// Uninterp declares an uninterpreted function once.
func (vc *VC) Uninterp(name string, args []Sort, ret Sort, axioms ...string) {
	if _, ok := vc.gdefs[name]; ok {
		return
	}
	as := make([]string, len(args))
	for i, a := range args {
		as[i] = string(a)
	}
	vc.addGDef(&GDef{Name: name, Decl: fmt.Sprintf("(declare-fun %s (%s) %s)", name, strings.Join(as, " "), ret), Axioms: axioms})
}

func sortedKeys(m map[string]bool) []string {
	out := make([]string, 0, len(m))
	for k := range m {
		out = append(out, k)
	}
	sort.Strings(out)
	return out
}

func (vc *VC) fired(cl *Clause) {
	if vc.firedCS == nil {
		vc.firedCS = map[*Clause]bool{}
	}
	vc.firedCS[cl] = true
}

var groupRe = regexp.MustCompile(`(?:^|[:#]|loop[0-9]+\.|#[0-9]+\.)([A-Za-z][A-Za-z0-9.]*)/[A-Za-z]`)

// obligationGroup: the proof group of an obligation, from the clause label "G/label" in its name.
func obligationGroup(name string) string {
	i := strings.Index(name, "#")
	if i < 0 {
		return ""
	}
	m := groupRe.FindStringSubmatch(name[i:])
	if m == nil {
		return ""
	}
	return loopPrefixRe.ReplaceAllString(m[1], "")
}

var loopPrefixRe = regexp.MustCompile(`^loop[0-9]+\.`)
