package main

// sync.RWMutex / sync.Mutex: ghost state of the locks held by the current
// goroutine (DESIGN §3.7), and the guarded-by obligations of C12.

import (
	"fmt"
	"go/token"
	"go/types"
	"strings"
)

// lockKey: ghost array name and key for a mutex receiver.
func (fr *Frame) lockKey(v Val) (string, Term) {
	if v.Loc != nil && v.Loc.Cell == nil && len(v.Loc.Path) > 0 {
		stt := v.Loc.Root.Underlying().(*types.Struct)
		name := fmt.Sprintf("$g.lock.%s.%s", shortTypeName(v.Loc.Root), stt.Field(v.Loc.Path[0]).Name())
		return name, v.Loc.Ptr
	}
	if v.IsT && v.T.Sort == SPtr {
		return "$g.lock.ptr", v.T
	}
	fail("mutex receiver is neither a field of a heap object nor a pointer")
	return "", Term{}
}

func lockModel(op string) modelFn {
	return func(fr *Frame, a []Val, st *State, pos token.Pos) (Val, *State) {
		vc := fr.vc
		vc.assumptions["model:sync.RWMutex as ghost state of locks held by this goroutine (0 free, n>0 read-held n times, -1 write-held); not reentrant"] = true
		name, key := fr.lockKey(a[0])
		srt := Sort("(Array Ptr Int)")
		g := vc.ghost(st, name, srt)
		cur := Sel(g, key, SInt)
		var next Term
		switch op {
		case "Lock":
			vc.Oblige("lock", fmt.Sprintf("%s#%d", op, vc.nextCount("lock")), pos, st, Eq(cur, IntLit(0)), "Lock while this goroutine already holds the mutex (self-deadlock) — "+name)
			st.Assume(Eq(cur, IntLit(0)))
			next = IntLit(-1)
		case "RLock":
			vc.Oblige("lock", fmt.Sprintf("%s#%d", op, vc.nextCount("lock")), pos, st, Le(IntLit(0), cur), "RLock while this goroutine holds the write lock (self-deadlock) — "+name)
			st.Assume(Le(IntLit(0), cur))
			next = Add(cur, IntLit(1))
		case "Unlock":
			vc.Oblige("lock", fmt.Sprintf("%s#%d", op, vc.nextCount("lock")), pos, st, Eq(cur, IntLit(-1)), "Unlock of a mutex that is not write-held — "+name)
			st.Assume(Eq(cur, IntLit(-1)))
			next = IntLit(0)
		case "RUnlock":
			vc.Oblige("lock", fmt.Sprintf("%s#%d", op, vc.nextCount("lock")), pos, st, Lt(IntLit(0), cur), "RUnlock of a mutex that is not read-held — "+name)
			st.Assume(Lt(IntLit(0), cur))
			next = Sub(cur, IntLit(1))
		}
		vc.setGhost(st, name, Sto(g, key, next))
		return Val{}, st
	}
}

func (vc *VC) nextCount(kind string) int {
	vc.safeCount[kind]++
	return vc.safeCount[kind]
}

func init() {
	for _, op := range []string{"Lock", "RLock", "Unlock", "RUnlock"} {
		locModels["(*sync.RWMutex)."+op] = lockModel(op)
	}
	locModels["(*sync.Mutex).Lock"] = lockModel("Lock")
	locModels["(*sync.Mutex).Unlock"] = lockModel("Unlock")
}

// guardCheck: an access to a field declared `guarded` needs its lock.
func (fr *Frame) guardCheck(l *Loc, st *State, write bool, pos token.Pos) {
	vc := fr.vc
	if l.Cell != nil || len(l.Path) == 0 || vc.dry > 0 || fr.pure || vc.ct == nil || !vc.guardsOn {
		return
	}
	named, ok := l.Root.(*types.Named)
	if !ok {
		return
	}
	stt, ok := named.Underlying().(*types.Struct)
	if !ok {
		return
	}
	fname := stt.Field(l.Path[0]).Name()
	for _, g := range vc.L.CF.Guarded {
		if g.Struct != named.Obj().Name() {
			continue
		}
		hit := false
		for _, f := range g.Fields {
			if f == fname {
				hit = true
			}
		}
		if !hit {
			continue
		}
		ghost := vc.ghost(st, fmt.Sprintf("$g.lock.%s.%s", shortTypeName(l.Root), g.Lock), Sort("(Array Ptr Int)"))
		cur := Sel(ghost, l.Ptr, SInt)
		var need Term
		if write {
			need = Eq(cur, IntLit(-1))
		} else {
			need = Not(Eq(cur, IntLit(0)))
		}
		if g.When != "" {
			// guarded only when the boolean field `When` of the same object is set
			for i := 0; i < stt.NumFields(); i++ {
				if stt.Field(i).Name() == g.When {
					obj := vc.heapLoad(st, l.Root, l.Ptr)
					need = Implies(vc.ss.FieldGet(obj, i), need)
				}
			}
		}
		// objects allocated by this activation are not shared yet
		need = Or(Le(vc.alloc0, PArr(l.Ptr)), need)
		kind := "read"
		if write {
			kind = "write"
		}
		vc.Oblige("guard", fmt.Sprintf("%s.%s#%d", named.Obj().Name(), fname, vc.nextCount("guard")), pos, st, need,
			fmt.Sprintf("%s of %s.%s without holding %s", kind, named.Obj().Name(), fname, g.Lock))
	}
}

var _ = strings.HasPrefix
