package main

import (
	"go/types"

	"golang.org/x/tools/go/ssa"
)

func (vc *VC) mapHeap(mt *types.Map) (string, Sort) {
	ks, vs := vc.specialSort(mt.Key()), vc.specialSort(mt.Elem())
	name := "M_" + mangle(shortTypeName(mt))
	vc.declareMapSort(ks, vs)
	return name, Sort("(Array Int " + string(mapValSort(ks, vs)) + ")")
}

func mapValSort(ks, vs Sort) Sort { return Sort("Map_" + mangle(string(ks)) + "_" + mangle(string(vs))) }

func (vc *VC) declareMapSort(ks, vs Sort) {
	ms := mapValSort(ks, vs)
	vc.addGDef(&GDef{Name: string(ms), Decl: "(declare-datatypes ((" + string(ms) + " 0)) (((mk." + string(ms) + " (mdom." + string(ms) + " (Array " + string(ks) + " Bool)) (mval." + string(ms) + " (Array " + string(ks) + " " + string(vs) + ")) (msize." + string(ms) + " Int)))))"})
}

func (fr *Frame) execRecv(x *ssa.UnOp, st *State) *State {
	fail("%s: channel receive outside the subset", fr.vc.posOf(x.Pos()))
	return nil
}
func (fr *Frame) execMakeChan(x *ssa.MakeChan, st *State) *State {
	fail("%s: make(chan) outside the subset", fr.vc.posOf(x.Pos()))
	return nil
}
func (fr *Frame) execSend(x *ssa.Send, st *State) *State {
	fail("%s: channel send outside the subset", fr.vc.posOf(x.Pos()))
	return nil
}
func (fr *Frame) execSelect(x *ssa.Select, st *State) *State {
	fail("%s: select outside the subset", fr.vc.posOf(x.Pos()))
	return nil
}
func (fr *Frame) chanCap(a Term, st *State) Term {
	fail("cap(chan) outside the subset")
	return Term{}
}
