package main

import (
	"fmt"
	"go/token"
	"go/types"

	"golang.org/x/tools/go/ssa"
)

func (vc *VC) mapHeap(mt *types.Map) (string, Sort) {
	ks, vs := vc.specialSort(mt.Key()), vc.specialSort(mt.Elem())
	name := "M_" + mangle(shortTypeName(mt))
	vc.declareMapSort(ks, vs)
	return name, Sort("(Array Int " + string(mapValSort(ks, vs)) + ")")
}

func mapValSort(ks, vs Sort) Sort { return Sort("Map_" + mangle(string(ks)) + "_" + mangle(string(vs))) }

func (vc *VC) declareMapSort(ks, vs Sort) {
	ms := mapValSort(ks, vs)
	vc.addGDef(&GDef{Name: string(ms), Decl: "(declare-datatypes ((" + string(ms) + " 0)) (((mk." + string(ms) + " (mdom." + string(ms) + " (Array " + string(ks) + " Bool)) (mval." + string(ms) + " (Array " + string(ks) + " " + string(vs) + ")) (msize." + string(ms) + " Int)))))"})
}

// ---------------------------------------------------------------------------
// Channels (only the shapes of compressor_cache.go). A channel is shared
// state: its fill level is whatever other goroutines make it (interference
// havoc, DESIGN §3.7), so nothing observed about it earlier can justify a
// blocking operation later.

func (fr *Frame) chanCapTerm(a Term, st *State) Term {
	g := fr.vc.ghost(st, "$ch.cap", Sort("(Array Int Int)"))
	return Sel(g, a, SInt)
}

func (fr *Frame) chanLen(a Term, st *State) Term {
	vc := fr.vc
	vc.assumptions["channels: fill level havocked at every read (interference), 0 <= len <= cap"] = true
	v := vc.Fresh("chlen", SInt)
	st.Assume(And(Le(IntLit(0), v), Le(v, fr.chanCapTerm(a, st))))
	return v
}

func (fr *Frame) chanCap(a Term, st *State) Term { return fr.chanCapTerm(a, st) }

func (fr *Frame) execRecv(x *ssa.UnOp, st *State) *State {
	vc := fr.vc
	vc.Oblige("blocking", "recv#"+itoa(vc.nextCount("blocking")), x.Pos(), st, False, "channel receive outside select-with-default may block")
	fr.vals[x] = TV(fr.recvValue(x.Type(), st))
	return st
}

// recvValue: an object taken out of a pool channel (ghost flag frompool).
func (fr *Frame) recvValue(t types.Type, st *State) Term {
	vc := fr.vc
	if tt, ok := t.(*types.Tuple); ok {
		t = tt.At(0).Type()
	}
	srt := vc.specialSort(t)
	v := vc.Fresh("recv", srt)
	if wf := vc.wfValue(v, t, st); wf.S != "true" {
		st.Assume(wf)
	}
	if srt == SPtr {
		g := vc.ghost(st, "$g.frompool", Sort("(Array Ptr Int)"))
		st.Assume(Eq(Sel(g, v, SInt), IntLit(1)))
	}
	return v
}

func (fr *Frame) execMakeChan(x *ssa.MakeChan, st *State) *State {
	vc := fr.vc
	id := vc.newObject(st)
	g := vc.ghost(st, "$ch.cap", Sort("(Array Int Int)"))
	vc.setGhost(st, "$ch.cap", Sto(g, id, fr.val(x.Size).T))
	fr.vals[x] = TV(id)
	return st
}

func (fr *Frame) execSend(x *ssa.Send, st *State) *State {
	vc := fr.vc
	vc.Oblige("blocking", "send#"+itoa(vc.nextCount("blocking")), x.Pos(), st, False,
		"channel send outside select-with-default may block: the channel can be full whatever was observed before")
	fr.noteSend(fr.val(x.X), x.Pos(), st)
	return st
}

// noteSend: call-site obligations registered as `callsite chansend ...` (arg0 is the value sent).
func (fr *Frame) noteSend(v Val, pos token.Pos, st *State) {
	vc := fr.vc
	if vc.ct == nil || vc.dry > 0 {
		return
	}
	if v.IsT && v.T.Sort == SPtr {
		v = TV(App(SIface, "mkiface", IntLit(1), v.T))
	}
	for _, cl := range vc.ct.CallSites["chansend"] {
		g := fr.evalCallSite(cl, Term{}, []Val{v}, st)
		vc.callCount++
		vc.fired(cl)
		vc.Oblige("callsite", fmt.Sprintf("chansend#%d.%s", vc.callCount, cl.Label), pos, st, g, cl.Src)
	}
}

func (fr *Frame) execSelect(x *ssa.Select, st *State) *State {
	vc := fr.vc
	if x.Blocking {
		vc.Oblige("blocking", "select#"+itoa(vc.nextCount("blocking")), x.Pos(), st, False, "select without default may block")
	}
	idx := vc.Fresh("selidx", SInt)
	lo := IntLit(0)
	if !x.Blocking {
		lo = IntLit(-1)
	}
	st.Assume(And(Le(lo, idx), Lt(idx, IntLit(int64(len(x.States))))))
	tuple := []Val{TV(idx), TV(vc.Fresh("recvok", SBool))}
	for _, s := range x.States {
		if s.Dir == types.RecvOnly {
			et := s.Chan.Type().Underlying().(*types.Chan).Elem()
			tuple = append(tuple, TV(fr.recvValue(et, st)))
		} else {
			fr.noteSend(fr.val(s.Send), x.Pos(), st)
		}
	}
	fr.vals[x] = Val{Tuple: tuple}
	return st
}
