#!/usr/bin/env python3
# Generates MANIFEST.json and propinfo.json from the table below.
import json, subprocess

HOOK_COMMITS = subprocess.run(["git","-C","/repo","log","--format=%H %s"],capture_output=True,text=True).stdout.strip().split("\n")
hook_commits = [l.split()[0] for l in HOOK_COMMITS if " verif:" in l or l.split(" ",1)[1].startswith("verif:")]

COMMON_ASSUME = ("trusted base: govc's SSA->SMT translation (DESIGN.md section 3), x/tools SSA builder, z3/z3-new/cvc5; "
 "A-INT (mathematical integers), A-BYTE (SMT character = byte); ")

# id -> (claimed?, level text, level note, not_decided list, technique)
P = {
"C01": (True,
 "Deductive proof, for all templates and requests, that the CurlyRouter's path matcher admits exactly the requests the template admits (literal, regex, suffix, verb, tail wildcard, segment count), that Accept/Content-Type admission equals the declarative header oracle, that selectRoutes returns exactly the admitted routes, and that dispatch calls functions only on selected routes; discharged per obligation by SMT.",
 COMMON_ASSUME + "A-VERB (meaning of the custom-verb regular expressions), regexp.MatchString uninterpreted, A-SORT, A-CB/A-PURE for callbacks; interface contract of RouteSelector assumed at the dispatch call site.",
 ["RouterJSR311 path matching (semantics of compiled template expressions, A-JSR)", "detectRoute's staged elimination is not yet under a functional contract"],
 "contract-based deductive verification (own VC generator over go/ssa, SMT)"),
"C02": (True,
 "Deductive proof of totality (no nil dereference, index, slice-bounds, type-assertion or nil-map panic) for the functions on the Curly dispatch path under their preconditions, of the functional contracts of computeWebserviceScore/detectWebService (best root, regex roots only claim matching URLs) and of dispatch's lock balance and panic containment.",
 COMMON_ASSUME + "A-VERB, regexp uninterpreted, A-CB, interface contracts of RouteSelector/PathProcessor assumed at call sites.",
 ["exactness of 404/405/415/406 (detectRoute not yet under functional contract)", "RouterJSR311", "what net/http does before and after dispatch"],
 "contract-based deductive verification (own VC generator over go/ssa, SMT)"),
"C03": (True,
 "Deductive proof that both ranking comparators equal their lexicographic key specs, that the key order is a strict weak order (lemma), that selectRoutes returns candidates sorted by it, that detectWebService computes the arg-max of the root score and first among equals (inductive lemma).",
 COMMON_ASSUME + "A-SORT (sort.Sort permutes and orders by Less).",
 ["registration-order independence for equal root scores (D10, known finding candidate)", "RouterJSR311 ranking"],
 "contract-based deductive verification (own VC generator over go/ssa, SMT), inductive lemmas"),
"C04": (True,
 "Deductive proof that tokenizePath yields the token sequence of the path, that untokenizePath joins the remaining tokens with '/', with the matcher contracts that establish the preconditions.",
 COMMON_ASSUME + "models of strings.Split/Trim as recursive definitions.",
 ["defaultPathProcessor.ExtractParameters functional contract (map contents) not yet discharged", "RouterJSR311.ExtractParameters (A-JSR)"],
 "contract-based deductive verification (own VC generator over go/ssa, SMT)"),
"C06": (True,
 "Deductive proof of FilterChain.ProcessFilter's contract (exactly one dynamic call: the filter at the old index with index advanced first, or the target once filters are exhausted; same request/response passed) including exceptional exits, and of dispatch's use of it.",
 COMMON_ASSUME + "A-CB (callbacks do not reconfigure framework objects).",
 ["composition of the chain over unknown filters (lemma C06.chain is a meta-argument)", "concurrent interleavings"],
 "contract-based deductive verification (own VC generator over go/ssa, SMT)"),
"C07": (True,
 "Deductive proof of wantsCompressedResponse (coding choice, skip when already encoded), NewCompressingResponseWriter (label set, compressor acquired and reset), CompressingResponseWriter.Close (release exactly once, representation invariant) and of dispatch's deferred Close on every exit.",
 COMMON_ASSUME + "A-CODEC (gzip/zlib writer model), interface contract of CompressorProvider.",
 ["codec correctness (decode(encode(x)) == x)", "ServeHTTP/Handle entry points not yet under contract", "D14 (route override ignored via ServeHTTP)"],
 "contract-based deductive verification (own VC generator over go/ssa, SMT)"),
"C08": (True,
 "Deductive proof that isOriginAllowed answers true only for origins the configuration allows (whole-entry case-insensitive match, wildcard, predicate) and false for the empty origin, and of AddHeader's exact effect on the header map.",
 COMMON_ASSUME + "strings.ToLower uninterpreted (idempotent), A-PURE (origin predicate).",
 ["the Filter method itself (pass-through and grant clauses) is not yet under contract"],
 "contract-based deductive verification (own VC generator over go/ssa, SMT)"),
"C10": (True,
 "Deductive proof over explicit exceptional edges that dispatch releases the services lock on every exit, closes an installed compressing writer on every exit, lets a panic escape only if recovery is off or the recover handler itself panicked.",
 COMMON_ASSUME + "A-CB, A-CODEC, interface contracts at call sites.",
 ["panics inside net/http or the runtime", "ServeHTTP/Handle entry points"],
 "contract-based deductive verification (own VC generator over go/ssa, SMT), exceptional postconditions"),
"C13": (True,
 "Deductive proof of the client side of compressor ownership: NewCompressingResponseWriter acquires exactly one compressor and resets it, Close releases it exactly once and refuses a second Close, under the provider interface contract (hands out only unheld objects).",
 COMMON_ASSUME + "interface contract of CompressorProvider (not yet proved for BoundedCachedCompressors), A-POOL.",
 ["real schedules", "sync.Pool internals", "non-blocking of BoundedCachedCompressors.Release* (D7)", "Request.ReadEntity"],
 "contract-based deductive verification (own VC generator over go/ssa, SMT)"),
"C14": (True,
 "Deductive proof of tokenizePath's contract (the only place the URL path enters the Curly pipeline) against the token oracle.",
 COMMON_ASSUME + "models of strings.Split/Trim.",
 ["lemma tokens(p+'/') == tokens(p) not yet discharged", "RouterJSR311 half (regex semantics)"],
 "contract-based deductive verification (own VC generator over go/ssa, SMT)"),
"C15": (True,
 "Deductive proof that Response.Write adds exactly the count the underlying writer accepted and returns its results unchanged, that WriteHeader records and forwards the status once, and of StatusCode/ContentLength, over a ghost model of an arbitrary http.ResponseWriter.",
 COMMON_ASSUME + "assumed contract of http.ResponseWriter (Write accepts a prefix; error-free Write accepts all).",
 ["WriteEntity/WriteAsJson/WriteError* paths (encoders are dependencies)", "lemma over call sequences"],
 "contract-based deductive verification (own VC generator over go/ssa, SMT)"),
"C18": (True,
 "Deductive proof of the CurlyRouter half against the shared routing oracle (matcher, score, candidate set).",
 COMMON_ASSUME + "A-VERB.",
 ["RouterJSR311 half and the agreement lemmas (A-JSR)", "D9 (ranking differs)"],
 "contract-based deductive verification (own VC generator over go/ssa, SMT)"),
}
NA = {
"C05": "engine stage not reached yet for sortedMimes/EntityWriter (float q-values, map iteration); matchesAccept is proved under C01",
"C09": "Filter/doPreflightRequest are under contract but computeAllowedMethods needs the regexp model; not claimed until it is discharged",
"C11": "Container.Add/Remove/addHandler contracts (ghost ServeMux) not yet written",
"C12": "guarded-by obligations are generated but the mutators are not yet under contract",
"C16": "Request.ReadEntity glue not yet under contract; codec round-trip is a dependency property (A-RT)",
"C17": "computeAllowedMethods/OPTIONSFilter need the regexp model (A-JSR)",
"C19": "frame obligations exist per function but the whole reachable set is not yet covered",
}

checks=[]
info={}
for pid,(claimed,text,note,nd,tech) in sorted(P.items()):
    if not claimed: continue
    checks.append({
      "property_id": pid,
      "quick_cmd": f"./check {pid} quick",
      "thorough_cmd": f"./check {pid} thorough",
      "evidence_file": f"/verif/evidence/{pid}.json",
      "replay_cmd_template": "./check --replay {path}",
      "engine": "govc",
      "level_claimed": {"category":"proof","text":text,"design_ref":"DESIGN.md section 10 ("+pid+")"},
      "level_note": note + " Not decided by this check: " + "; ".join(nd),
      "technique": tech,
    })
    info[pid]={"not_decided":nd,"note":note}
m={
 "version":1,
 "setup_cmd":"cd /verif/engine && GOFLAGS=-mod=mod GOPROXY=off GOSUMDB=off GOTOOLCHAIN=local go build -o /verif/bin/govc .",
 "hooks":{"guard":"verif","enable":"go build -tags verif (the only hook is /repo/verif_contracts.go, a comment-only file with //go:build verif)","baseline_off_cmd":"cd /repo && go test -vet=off -count=1 ./...","source_commits":hook_commits,"add_only":True},
 "engines":[{"name":"govc","path":"/verif/engine","serves_properties":sorted(k for k,v in P.items() if v[0]),"kind_free_text":"own verification-condition generator: go/ssa (naive form) of /repo's working tree -> forward symbolic execution with contracts, loop invariants, exceptional edges -> SMT-LIB, one query per named obligation, raced on z3 4.8.12 / z3 5.1.0 / cvc5 1.0.3"}],
 "checks":checks,
 "not_applicable":[{"property_id":k,"reason":v} for k,v in sorted(NA.items())],
 "notes":"Contract-based deductive verification of the real code; contracts live in /repo/verif_contracts.go (comment-only, build tag verif), property oracles in /verif/spec, dependency models in /verif/models. See DESIGN.md.",
}
json.dump(m,open('/verif/MANIFEST.json','w'),indent=1)
json.dump(info,open('/verif/propinfo.json','w'),indent=1)
print("checks:",[c["property_id"] for c in checks],"n/a:",sorted(NA))
