#!/usr/bin/env python3
# Generates MANIFEST.json and propinfo.json from the table below.
import json, subprocess

HOOK_COMMITS = subprocess.run(["git","-C","/repo","log","--format=%H %s"],capture_output=True,text=True).stdout.strip().split("\n")
hook_commits = [l.split()[0] for l in HOOK_COMMITS if " verif:" in l or l.split(" ",1)[1].startswith("verif:")]

COMMON_ASSUME = ("trusted base: govc's SSA->SMT translation (DESIGN.md section 3), x/tools SSA builder, z3/z3-new/cvc5; "
 "A-INT (mathematical integers), A-BYTE (SMT character = byte); ")

# id -> (claimed?, level text, level note, not_decided list, technique)
TECH = "contract-based deductive verification (own VC generator over go/ssa, SMT)"
P = {
"C01": (True,
 "Deductive proof, for all templates and requests, that the CurlyRouter's path matcher admits exactly the requests the template admits (literal, regex, {v}suffix, custom verb, tail wildcard, segment count), that Accept/Content-Type admission (Route.matchesAccept/matchesContentType) equals the declarative header oracle, that selectRoutes returns exactly the admitted routes, that RouterJSR311.detectRoute (shared by both routers) only returns a candidate that passes method, Content-Type and Accept, that CurlyRouter.SelectRoute meets the RouteSelector interface contract, and that dispatch calls a route function only on the selected, admitted route.",
 COMMON_ASSUME + "A-VERB (meaning of the three custom-verb regular expressions; bounded stand-in over a string pool on every run, labelled bounded), regexp.MatchString uninterpreted, A-SORT, A-CB/A-PURE for callbacks; the RouteSelector interface contract is proved for CurlyRouter and assumed for RouterJSR311.",
 ["RouterJSR311 path matching (meaning of compiled template expressions, A-JSR)", "what net/http does before dispatch (ServeMux pattern choice)"],
 TECH),
"C02": (True,
 "Deductive proof of totality (no nil dereference, index, slice-bounds, type-assertion or nil-map panic) for the functions on the Curly dispatch path under their stated preconditions, of computeWebserviceScore/detectWebService (best root; regex roots claim only URLs they match), of detectRoute's error statuses (405 carries an Allow list that is sound and duplicate-free), of sortedMimes/insertMime totality, and of dispatch's lock balance and panic containment.",
 COMMON_ASSUME + "A-VERB, regexp uninterpreted, A-CB, interface contracts of RouteSelector/PathProcessor assumed at call sites.",
 ["completeness of the 405 Allow list and exact 404/415/406 precedence (the quantifier alternation after append is not discharged)", "RouterJSR311 path stage", "what net/http does before and after dispatch"],
 TECH),
"C03": (True,
 "Deductive proof that the Curly ranking comparator equals its lexicographic key spec, that the key order is a strict weak order (lemma C03.curly-less-swo), that selectRoutes returns the admitted candidates sorted by it, and that detectWebService computes the arg-max of the root score, first among equals (inductive lemma C03.service-argmax).",
 COMMON_ASSUME + "A-SORT (sort.Sort permutes and orders by Less).",
 ["registration-order independence when different root shapes score equal (D10, documented finding, not a check)", "RouterJSR311 ranking"],
 TECH + ", inductive lemmas"),
"C04": (True,
 "Deductive proof that tokenizePath yields the token sequence of the path, that untokenizePath joins the remaining tokens with '/', that defaultPathProcessor.ExtractParameters is total on every admitted (route, path) pair, that concatPath/postBuild/Build produce a route whose tokens are the tokens of root+sub-path, and that dispatch hands the extracted parameters of the selected route to the request.",
 COMMON_ASSUME + "models of strings.Split/Trim as recursive definitions; newPathExpression/nameOfFunction trusted (total).",
 ["exact map contents produced by ExtractParameters (safety and frame only)", "RouterJSR311.ExtractParameters (A-JSR)"],
 TECH),
"C06": (True,
 "Deductive proof of FilterChain.ProcessFilter's contract (exactly one dynamic call: the filter at the old index with the index advanced first, or the target once filters are exhausted; same request/response passed) including exceptional exits, of dispatch's construction of the chain (container filters, then service filters, then route filters, then the route function; error path runs container filters only), and of the net/http middleware adapter closure.",
 COMMON_ASSUME + "A-CB (callbacks do not reconfigure framework objects).",
 ["composition of the chain over unknown filters is an induction over user code (meta-argument in DESIGN.md)", "concurrent interleavings"],
 TECH),
"C07": (True,
 "Deductive proof of wantsCompressedResponse (coding choice, skip when the response is already encoded), NewCompressingResponseWriter (label set, compressor acquired and Reset onto the writer), CompressingResponseWriter Write/WriteHeader/Header forwarding, Close (release exactly once, representation invariant), and of dispatch's deferred Close on every exit and its treatment of the per-route override.",
 COMMON_ASSUME + "A-CODEC (gzip/zlib writer model), interface contract of CompressorProvider.",
 ["codec correctness (decode(encode(x)) == x) is a dependency property", "ServeHTTP/Handle entry points are not under contract", "D14 (route ContentEncodingEnabled(false) ignored when an outer writer already compresses) is an open known finding with a replayable witness"],
 TECH),
"C08": (True,
 "Deductive proof that isOriginAllowed answers true only for origins the configuration allows (whole-entry case-insensitive match, wildcard, predicate) and false for the empty origin; of AddHeader's exact effect on the header map; and of CrossOriginResourceSharing.Filter: no CORS header unless the origin is allowed, Allow-Origin echoes the request origin verbatim exactly once, credentials only if configured, and without an allowed Origin the filter's whole effect is chain.ProcessFilter on untouched headers.",
 COMMON_ASSUME + "strings.ToLower uninterpreted (idempotent), A-PURE (origin predicate), sync.Map/regexp compile of allowed-domain patterns over-approximated as harmless externals.",
 ["regular-expression allowed domains beyond 'some entry matched' (regexp uninterpreted)"],
 TECH),
"C09": (True,
 "Deductive proof that a preflight (OPTIONS with Access-Control-Request-Method from an allowed origin) is answered by the filter alone (no chain call), that doPreflightRequest grants only methods and headers the configuration or the container's routes allow (isValidAccessControlRequestMethod/-Header, computeAllowedMethods sound), and that a refused preflight writes no grant header.",
 COMMON_ASSUME + "regexp.FindStringSubmatch trusted (A-JSR), A-PURE.",
 ["completeness of the grant (every allowed method is granted) is not discharged", "computeAllowedMethods unions all services whose root matches while dispatch uses the best one (D8, documented)"],
 TECH),
"C10": (True,
 "Deductive proof over explicit exceptional edges that dispatch releases the services lock on every exit, closes an installed compressing writer on every exit, releases every compressor it acquired (ghost acquire/release counters balance on normal and exceptional exits), and lets a panic escape only if recovery is off or the recover handler itself panicked.",
 COMMON_ASSUME + "A-CB, A-CODEC, interface contracts at call sites.",
 ["panics inside net/http or the runtime", "ServeHTTP/Handle entry points"],
 TECH + ", exceptional postconditions"),
"C11": (True,
 "Deductive proof over a ghost model of net/http.ServeMux's pattern set that Container.Add registers exactly the patterns of the new service (root and root+'/', '/' once) and never registers a pattern twice, so it cannot panic inside net/http under the distinct-roots precondition (roots differing only by a trailing slash included), that Remove rebuilds a mux holding exactly the patterns of the remaining services, that addHandler's closure dispatches, and that WebService.Route/RemoveRoute/Routes keep the route list consistent with its lock.",
 COMMON_ASSUME + "trusted model of ServeMux.HandleFunc/NewServeMux (pattern set; double registration panics), WebService.Path trusted.",
 ["patterns registered through Container.Handle/HandleWithFilter are forgotten by Remove (D12, documented finding; repair needs a new field)", "ServeMux's own longest-pattern matching"],
 TECH),
"C12": (True,
 "Deductive proof of lock discipline as guarded-by obligations: every read or write of Container.webServices/ServeMux and WebService.routes in the functions under contract happens with the declared lock held in the right mode, locks are balanced on every exit (including panics), and no function under contract acquires a lock it already holds.",
 COMMON_ASSUME + "sync.RWMutex modelled as per-goroutine ghost state (not re-entrant); interference from other goroutines is havoc of guarded state while the lock is not held.",
 ["real schedules and the Go memory model (a lock-discipline proof, not a race detector)", "exported fields users may touch without the lock"],
 TECH + ", guarded-by obligations"),
"C13": (True,
 "Deductive proof of compressor ownership: NewCompressingResponseWriter acquires exactly one compressor and Resets it; Close releases it exactly once and refuses a second Close; Request.ReadEntity releases everything it acquires on every exit (ghost counters; the same balance for dispatch is an obligation of the C10 check); ReadEntity Resets the pooled reader onto the body before any read; BoundedCachedCompressors Acquire* return a fresh or pooled-and-unheld object and Release* never blocks (select with default) and only sends an object the caller held.",
 COMMON_ASSUME + "A-POOL (channel model: receive yields an object some release sent), A-CODEC, SyncPoolCompessors (sync.Pool) not modelled; user callbacks cannot release the gzip reader ReadEntity holds.",
 ["real schedules", "sync.Pool internals", "ReadEntity leaves Request.Body pointing at the released reader (D13, candidate only, sequentially benign)"],
 TECH),
"C14": (True,
 "Deductive proof of tokenizePath against the token oracle plus the lemma C14.trailing-slash (the token sequence of p and of p+'/' are equal for every p, by general induction over the recursive Split/Trim models): everything the Curly pipeline derives from the path is a function of that token sequence; concatPath/postBuild/Build give the same tokens for roots and sub-paths with and without trailing slash.",
 COMMON_ASSUME + "models of strings.Split/Trim.",
 ["RouterJSR311 half (regular-expression semantics)", "ServeMux redirect behaviour for trailing slashes"],
 TECH + ", inductive lemmas"),
"C15": (True,
 "Deductive proof that Response.Write adds exactly the count the underlying writer accepted and returns its results unchanged, that WriteHeader records and forwards the status once, of StatusCode/ContentLength, and that CompressingResponseWriter forwards Write/WriteHeader/Header to the right target, over a ghost model of an arbitrary http.ResponseWriter.",
 COMMON_ASSUME + "assumed contract of http.ResponseWriter (Write accepts a prefix; error-free Write accepts all).",
 ["WriteEntity/WriteAsJson/WriteError* paths (encoders are dependencies)", "lemma over call sequences"],
 TECH),
"C16": (True,
 "Deductive proof of the framework glue only: Request.ReadEntity acquires at most one pooled gzip reader, Resets it onto the request body before the entity reader is called (so no state of an earlier body survives), releases it on every exit, returns the zlib/lookup/decoder error instead of panicking, and looks accessors up without touching the registry; accessorAt is total.",
 COMMON_ASSUME + "A-RT/A-CODEC: encoding/json, encoding/xml, compress/gzip and compress/zlib are dependencies (trusted: decode errors are returned, Reset forgets earlier state).",
 ["write-then-read equality of values (a property of encoding/json and encoding/xml, not of this package)", "behaviour of the codecs on corrupt input"],
 TECH),
"C17": (True,
 "Deductive proof that the Allow list attached to a 405 by detectRoute contains only methods of routes matching the path and no duplicates, that OPTIONSFilter answers OPTIONS alone with Allow equal to computeAllowedMethods and passes every other method through untouched, and that computeAllowedMethods is sound with respect to the container's routes.",
 COMMON_ASSUME + "regexp.FindStringSubmatch trusted (A-JSR).",
 ["completeness of the Allow list (every matching method listed)", "agreement between computeAllowedMethods (all matching roots) and dispatch (best root) — D8, documented"],
 TECH),
"C18": (True,
 "Deductive proof of the CurlyRouter half against the shared routing oracle (matcher, score, candidate set) and of the detectRoute stage both routers share.",
 COMMON_ASSUME + "A-VERB.",
 ["RouterJSR311 path stage and the agreement lemma itself (A-JSR: meaning of compiled regular expressions)", "D9 (rankings differ: static tokens vs literal characters), documented"],
 TECH),
"C19": (True,
 "Deductive frame proofs: each function under contract on the dispatch path changes only the locations in its modifies clause — route tables, Produces/Consumes slices, configuration and other requests' objects are untouched (selectRoutes, SelectRoute, Routes copies, ExtractParameters, NewRequest/NewResponse, wrapRequestResponse, dispatch, CORS Filter/doPreflightRequest, OPTIONSFilter, computeAllowedMethods).",
 COMMON_ASSUME + "A-CB (callbacks change only the objects handed to them), typed heaps (no unsafe aliasing).",
 ["functions not under contract", "concurrent interleavings"],
 TECH + ", frame conditions"),
}
NA = {
"C05": "the deciding function Response.EntityWriter ranks by float q-values through three nested appends and falls back through a map-iterating substring lookup; the ranking contract of insertMime over Reals could not be discharged by any installed solver and the response Content-Type is set by the registered accessor (user code). matchesAccept (router side) is proved under C01; totality of sortedMimes/insertMime/accessorAt under C02/C16; D3 and D15 were found and fixed on the way. Not claimed.",
}

checks=[]
info={}
for pid,(claimed,text,note,nd,tech) in sorted(P.items()):
    if not claimed: continue
    checks.append({
      "property_id": pid,
      "quick_cmd": f"./check {pid} quick",
      "thorough_cmd": f"./check {pid} thorough",
      "evidence_file": f"/verif/evidence/{pid}.json",
      "replay_cmd_template": "./check --replay {path}",
      "engine": "govc",
      "level_claimed": {"category":"proof","text":text,"design_ref":"DESIGN.md section 10 ("+pid+")"},
      "level_note": note + " Not decided by this check: " + "; ".join(nd),
      "technique": tech,
    })
    info[pid]={"not_decided":nd,"note":note}
m={
 "version":1,
 "setup_cmd":"cd /verif/engine && GOFLAGS=-mod=mod GOPROXY=off GOSUMDB=off GOTOOLCHAIN=local go build -o /verif/bin/govc .",
 "hooks":{"guard":"verif","enable":"go build -tags verif (the only hook is /repo/verif_contracts.go, a comment-only file with //go:build verif)","baseline_off_cmd":"cd /repo && go test -vet=off -count=1 ./...","source_commits":hook_commits,"add_only":True},
 "engines":[{"name":"govc","path":"/verif/engine","serves_properties":sorted(k for k,v in P.items() if v[0]),"kind_free_text":"own verification-condition generator: go/ssa (naive form) of /repo's working tree -> forward symbolic execution with contracts, loop invariants, exceptional edges -> SMT-LIB, one query per named obligation, raced on z3 4.8.12 / z3 5.1.0 / cvc5 1.0.3"}],
 "checks":checks,
 "not_applicable":[{"property_id":k,"reason":v} for k,v in sorted(NA.items())],
 "notes":"Contract-based deductive verification of the real code; contracts live in /repo/verif_contracts.go (comment-only, build tag verif), property oracles in /verif/spec, dependency models in /verif/models. See DESIGN.md.",
}
json.dump(m,open('/verif/MANIFEST.json','w'),indent=1)
json.dump(info,open('/verif/propinfo.json','w'),indent=1)
print("checks:",[c["property_id"] for c in checks],"n/a:",sorted(NA))
