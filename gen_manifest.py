#!/usr/bin/env python3
# Generates MANIFEST.json and propinfo.json from the table below.
import json, subprocess

HOOK_COMMITS = subprocess.run(["git","-C","/repo","log","--format=%H %s"],capture_output=True,text=True).stdout.strip().split("\n")
hook_commits = [l.split()[0] for l in HOOK_COMMITS if " verif:" in l or l.split(" ",1)[1].startswith("verif:")]

COMMON_ASSUME = ("trusted base: govc's SSA->SMT translation (DESIGN.md section 3), x/tools SSA builder, z3/z3-new/cvc5; "
 "A-INT (mathematical integers), A-BYTE (SMT character = byte); ")

# id -> (claimed?, level text, level note, not_decided list, technique)
TECH = "contract-based deductive verification (own VC generator over go/ssa, SMT)"
P = {
"C01": (True,
 "Deductive proof, for all templates and requests, that the CurlyRouter's path matcher admits exactly the requests the template admits (literal, regex, {v}suffix, custom verb, tail wildcard, segment count), that Accept/Content-Type admission (Route.matchesAccept/matchesContentType) equals the declarative header oracle, that selectRoutes returns exactly the admitted routes, that RouterJSR311.detectRoute (shared by both routers) returns a route exactly when one passes conditions, method, Content-Type and Accept, that CurlyRouter.SelectRoute meets the RouteSelector interface contract, and that dispatch calls a route function only on the selected, admitted route. For RouterJSR311: detectDispatcher, selectRoutes and SelectRoute keep exactly the services/routes whose compiled expression matches (stated over the regular-expression engine as two deterministic functions).",
 COMMON_ASSUME + "A-VERB (meaning of the three custom-verb regular expressions; bounded stand-in over a string pool on every run, labelled bounded), A-JSR (what a compiled template expression matches: newPathExpression's contract is validated by a bounded stand-in over 21 templates x 38 paths on every run, labelled bounded), regexp.MatchString uninterpreted, A-SORT, A-CB/A-PURE for callbacks; the RouteSelector interface contract is proved for CurlyRouter and assumed for RouterJSR311.",
 ["the link from 'the compiled expression matches' to 'the template admits the path' for RouterJSR311 beyond the bounded pool (A-JSR)", "what net/http does before dispatch (ServeMux pattern choice)"],
 TECH),
"C02": (True,
 "Deductive proof of totality (no nil dereference, index, slice-bounds, type-assertion or nil-map panic) for the functions on the dispatch path of both routers under their stated preconditions; of computeWebserviceScore/detectWebService (best root; regex roots claim only URLs they match) and detectDispatcher (404 exactly when no root expression matches); of detectRoute's exact outcome: a route iff some route passes all four stages, otherwise 404/405/415/406 decided by the first stage that leaves nothing (bodiless POST/PUT/PATCH rule included), with a 405 Allow list that is sound, complete and duplicate-free; that the default ServiceError handler sends the error's own status; of sortedMimes totality and insertMime's placement; and of dispatch's lock balance and panic containment.",
 COMMON_ASSUME + "A-VERB, A-JSR, regexp uninterpreted, A-CB, interface contracts of RouteSelector/PathProcessor assumed at call sites.",
 ["the end-to-end statement over the status the client sees: between the router's error and the writer sits the user-replaceable ServiceErrorHandleFunction, called through the container filters (both ends are proved: the router's exact error, the default handler's status)", "what net/http does before and after dispatch"],
 TECH),
"C03": (True,
 "Deductive proof that all three ranking comparators (sortableCurlyRoutes, sortableRouteCandidates, sortableDispatcherCandidates) equal their lexicographic key specs, that each key order is a strict weak order (lemmas), that CurlyRouter.selectRoutes and RouterJSR311.selectRoutes return the matching candidates sorted by it, that detectWebService computes the arg-max of the root score (first among equals, inductive lemma) and detectDispatcher a candidate no other matching one outranks, that detectRoute returns the first route of the ranked list that passes all stages, and — composing these — that neither CurlyRouter.SelectRoute nor RouterJSR311.SelectRoute selects a route while another route of the chosen service that admits/matches the path and passes conditions, method, Content-Type and Accept outranks it.",
 COMMON_ASSUME + "A-SORT (sort.Sort permutes and orders by Less; sort.Reverse modelled as the identity with the reversed order in the contract).",
 ["registration-order independence when different shapes score equal (D10) or JSR311 keys tie (sort.Sort is not stable)"],
 TECH + ", inductive lemmas"),
"C04": (True,
 "Deductive proof that tokenizePath yields the token sequence of the path, that untokenizePath joins the remaining tokens with '/', that the CurlyRouter matcher establishes the admission the extraction relies on, that defaultPathProcessor.ExtractParameters on every admitted (route, path) pair binds every declared variable and nothing else, each value being exactly the URL text of a token declaring that name (the segment minus literal suffix and custom-verb suffix; the remaining path joined by '/' for a tail wildcard), that RouterJSR311.extractParams/ExtractParameters bind exactly the declared names to the groups of the two matches (route variables win, nothing else bound), that concatPath/postBuild/Build produce a route whose tokens are the tokens of root+sub-path, and that dispatch extracts with the processor belonging to the router that selected the route and hands the result to the request.",
 COMMON_ASSUME + "models of strings.Split/Trim as recursive definitions; A-JSR (which text a group captures); newPathExpression/nameOfFunction trusted.",
 ["which of two tokens declaring the same name wins under the default processor", "the round-trip formulation 'substituting back reproduces the path' (the per-variable statement is proved instead)", "what a JSR311 group captures (A-JSR)"],
 TECH),
"C05": (True,
 "Deductive proof that sortedMimes returns the ranking of the usable ranges of the Accept header: the list equals, entry by entry, a ranking witness (media type and weight of each range taken from the header grammar: text before the first ';' and the value of the q parameter wherever it stands among the parameters, both without the optional whitespace around ',' ';' '='), and inductive lemmas prove about that witness what the statement asks — every position holds a usable range, every usable range has exactly one position, greater q first and header order on ties; that insertMime places an entry behind every entry of at least its quality and before the first entry of lower quality and keeps the order of the others; and that Response.EntityWriter, when every produced media type has a writer registered under its own name, returns the writer of the range the header ranks highest among the ranges the route can answer ('*/*' standing for the first Produces entry), never answers 'no writer' when some usable range can be answered from the Produces list, and is total; that a space before or behind a range changes neither its media type nor its weight (lemmas over the Trim model); that the range on which the router admitted the request (matchesAccept equals acceptAdmits, proved under C01) is a range the entity writer can answer — the router's and the writer's reading of the media type are the same text (string lemmas by course-of-values induction) — so a request admitted on Accept grounds is not answered 406 when the admitting range has a usable weight; that WriteHeaderAndEntity hands the value to the chosen writer exactly once (or records and sends 406) and that writeXML/writeJSON and the convenience writers label the response with the content type they were given.",
 COMMON_ASSUME + "strconv.ParseFloat as a deterministic uninterpreted function into the reals (NaN and infinities excluded: a q-value of NaN would compare false both ways); models of strings.Split/Trim; accessorAt's contract (proved, C16).",
 ["the Content-Type header itself is set by the registered accessor's Write (user code for custom registrations; the built-in writeJSON/writeXML set the content type they were registered with)", "ranges whose q-value is not a number rank nowhere; if the router admitted the request on such a range the entity writer answers from its fallbacks (the substring lookup over the registry map, DefaultResponseMimeType, the first produced type) — documented as D17, not checked", "q=0 is treated as a weight like any other"],
 TECH + ", inductive lemmas"),
"C06": (True,
 "Deductive proof of FilterChain.ProcessFilter's contract (exactly one dynamic call: the filter at the old index with the index advanced first, or the target once filters are exhausted; same request/response passed) including exceptional exits, of dispatch's construction of the chain (container filters, then service filters, then route filters, then the route function; error path runs container filters only), of HandleWithFilter's chain (exactly the container filters around the plain handler), and of the net/http middleware adapter closure.",
 COMMON_ASSUME + "A-CB (callbacks do not reconfigure framework objects).",
 ["composition of the chain over unknown filters is an induction over user code (meta-argument in DESIGN.md)", "concurrent interleavings"],
 TECH),
"C07": (True,
 "Deductive proof of wantsCompressedResponse (coding choice, skip when the response is already encoded), NewCompressingResponseWriter (label set, compressor acquired and Reset onto the writer), CompressingResponseWriter Write/WriteHeader/Header forwarding, Close (release exactly once, representation invariant), and of all entry points — dispatch, Container.ServeHTTP and the handler Handle registers: the writer is wrapped at most once, only when enabled, asked for and not yet encoded, the inner handler gets the writer in use, and what was installed is closed on every exit; dispatch honours the per-route override.",
 COMMON_ASSUME + "A-CODEC (gzip/zlib writer model), interface contract of CompressorProvider, ServeMux.ServeHTTP as a callback.",
 ["codec correctness (decode(encode(x)) == x) is a dependency property", "D14 (route ContentEncodingEnabled(false) ignored when an outer writer already compresses) is an open known finding with a replayable witness"],
 TECH),
"C08": (True,
 "Deductive proof that isOriginAllowed answers true only for origins the configuration allows (whole-entry case-insensitive match, wildcard, predicate) and false for the empty origin; of AddHeader's exact effect on the header map; and of CrossOriginResourceSharing.Filter: no CORS header unless the origin is allowed, Allow-Origin echoes the request origin verbatim exactly once, credentials only if configured, and without an allowed Origin the filter's whole effect is chain.ProcessFilter on untouched headers.",
 COMMON_ASSUME + "strings.ToLower uninterpreted (idempotent), A-PURE (origin predicate), sync.Map/regexp compile of allowed-domain patterns over-approximated as harmless externals.",
 ["regular-expression allowed domains beyond 'some entry matched' (regexp uninterpreted)"],
 TECH),
"C09": (True,
 "Deductive proof that a preflight (OPTIONS with Access-Control-Request-Method from an allowed origin) is answered by the filter alone (no chain call), that doPreflightRequest leaves the headers untouched unless the requested method and every requested header are allowed (isValidAccessControlRequestMethod/-Header equal their oracles), that the methods computed for an unconfigured filter are exactly the methods of the routes matching the URL (computeAllowedMethods sound and complete), and that the filter value itself is never mutated (so nothing carries over between preflights).",
 COMMON_ASSUME + "A-JSR (computeAllowedMethods is stated over the regular-expression engine), A-PURE.",
 ["computeAllowedMethods unions all services whose root matches while dispatch uses the best one (D8, documented)"],
 TECH),
"C10": (True,
 "Deductive proof over explicit exceptional edges that dispatch releases the services lock on every exit (also when the router or a route condition panics), closes an installed compressing writer on every exit, releases every compressor it acquired (ghost acquire/release counters balance on normal and exceptional exits), hands the recover handler the writer in use before closing it, and lets a panic escape only if recovery is off or the recover handler itself panicked; the same close/balance obligations for Container.ServeHTTP and the handler Handle registers; the default recover handler (logStackOnRecover) sends exactly one 500 and one body write and touches no header.",
 COMMON_ASSUME + "A-CB, A-CODEC, interface contracts at call sites.",
 ["panics inside net/http or the runtime"],
 TECH + ", exceptional postconditions"),
"C11": (True,
 "Deductive proof over a ghost model of net/http.ServeMux's pattern set that Container.Add registers exactly the patterns of the new service (root and root+'/', '/' once) and never registers a pattern twice, so it cannot panic inside net/http under the distinct-roots precondition (roots differing only by a trailing slash included), that Remove rebuilds a mux holding exactly the patterns of the remaining services, that addHandler's closure dispatches, that Handle/HandleWithFilter add exactly the given pattern to the current mux, that WebService.Path records and compiles the root path, and that WebService.Route/RemoveRoute/Routes keep the route list consistent with its lock.",
 COMMON_ASSUME + "trusted model of ServeMux.Handle/HandleFunc/NewServeMux (pattern set; double registration panics).",
 ["patterns registered through Container.Handle/HandleWithFilter are forgotten by Remove (D12, documented finding; repair needs a new field)", "ServeMux's own longest-pattern matching"],
 TECH),
"C12": (True,
 "Deductive proof of lock discipline as guarded-by obligations: every read or write of Container.webServices/ServeMux and WebService.routes in the functions under contract happens with the declared lock held in the right mode, locks are balanced on every exit (including panics raised by user code during route selection), no function under contract acquires a lock it already holds, and dispatch runs filters, the route function and the recover handler without the services lock (so a handler that blocks or re-enters the container cannot wedge a pending Add/Remove and the readers queued behind it).",
 COMMON_ASSUME + "sync.RWMutex modelled as per-goroutine ghost state (not re-entrant); interference from other goroutines is havoc of guarded state while the lock is not held.",
 ["real schedules and the Go memory model (a lock-discipline proof, not a race detector)", "exported fields users may touch without the lock"],
 TECH + ", guarded-by obligations"),
"C13": (True,
 "Deductive proof of compressor ownership: NewCompressingResponseWriter acquires exactly one compressor and Resets it; Close releases it exactly once and refuses a second Close; Request.ReadEntity, Container.ServeHTTP and the handler Handle registers release everything they acquire on every exit (ghost counters; the same balance for dispatch is an obligation of the C10 check); ReadEntity Resets the pooled reader onto the body before any read; BoundedCachedCompressors Acquire* return a fresh or pooled-and-unheld object and Release* never blocks (select with default) and only sends an object the caller held. SyncPoolCompessors (the default provider) hands out exactly what the sync.Pool of the right kind gave and puts back exactly the object it was given, once, into the pool of the right kind.",
 COMMON_ASSUME + "A-POOL (channel model: receive yields an object some release sent; sync.Pool.Get yields an unheld object of the pool's kind, Get/Put never block), A-CODEC; user callbacks cannot release the gzip reader ReadEntity holds.",
 ["real schedules", "sync.Pool internals", "ReadEntity leaves Request.Body pointing at the released reader (D13, candidate only, sequentially benign)"],
 TECH),
"C14": (True,
 "Deductive proof of tokenizePath against the token oracle plus the lemma C14.trailing-slash (the token sequence of p and of p+'/' are equal for every p, by general induction over the recursive Split/Trim models): everything the Curly pipeline derives from the path is a function of that token sequence; concatPath/postBuild/Build give the same tokens for roots and sub-paths with and without trailing slash. For RouterJSR311: selectRoutes keeps exactly the routes whose final group is empty or '/', and detectDispatcher chooses by rank among all matching roots (not by exact hit).",
 COMMON_ASSUME + "models of strings.Split/Trim; A-JSR.",
 ["that the compiled expressions themselves match p and p+'/' alike (regular-expression semantics; covered only by the bounded stand-in pool)", "ServeMux redirect behaviour for trailing slashes"],
 TECH + ", inductive lemmas"),
"C15": (True,
 "Deductive proof that every routed request gets a fresh Response that records status 200 and length 0, that Response.Write adds exactly the count the underlying writer accepted and returns its results unchanged, that WriteHeader records and forwards the status once, of StatusCode/ContentLength, that CompressingResponseWriter forwards Write/WriteHeader/Header to the right target, that WriteHeaderAndEntity records the 406 it sends when no writer is available and otherwise hands the value to the chosen writer exactly once, and that writeXML/writeJSON record the status they send and — where they write the document themselves (pretty printing) — return the error of the last Write; all over a ghost model of an arbitrary http.ResponseWriter.",
 COMMON_ASSUME + "assumed contract of http.ResponseWriter (Write accepts a prefix; error-free Write accepts all).",
 ["WriteAsJson/WriteAsXml/WriteError* paths and the streaming (non-pretty) encoders (dependencies; their writes through the Response are assumed, A-RT)", "lemma over call sequences"],
 TECH),
"C16": (True,
 "Deductive proof of the framework glue only: Request.ReadEntity acquires at most one pooled gzip reader, Resets it onto the request body before the entity reader is called (so no state of an earlier body survives), releases it on every exit, returns the zlib/lookup/decoder error instead of panicking; accessorAt returns the exactly registered accessor, else one whose registered type occurs in the Content-Type value (parameters and spacing tolerated, every map iteration order covered), else nothing — and nothing only if no registered type occurs in it; entityJSONAccess.Read switches the decoder to json.Number before decoding, whatever the target type.",
 COMMON_ASSUME + "A-RT/A-CODEC: encoding/json, encoding/xml, compress/gzip and compress/zlib are dependencies (trusted: decode errors are returned, Reset forgets earlier state).",
 ["write-then-read equality of values (a property of encoding/json and encoding/xml, not of this package)", "behaviour of the codecs on corrupt input"],
 TECH),
"C17": (True,
 "Deductive proof that the Allow list attached to a 405 by detectRoute contains exactly the methods of the routes matching the path (sound, complete, no duplicates) and that 405 is returned exactly when some route passes its conditions and none has the method; that OPTIONSFilter answers OPTIONS alone with Allow equal to the list computeAllowedMethods returns for this container and request and passes every other method through untouched; and that computeAllowedMethods returns exactly the methods of the routes whose expressions match the URL.",
 COMMON_ASSUME + "A-JSR (computeAllowedMethods is stated over the regular-expression engine).",
 ["agreement between computeAllowedMethods (all matching roots, regex matching) and what dispatch answers (best root; token matching under CurlyRouter) — D8, documented, and A-JSR"],
 TECH),
"C18": (True,
 "Deductive proof of both routers against their own oracles: the CurlyRouter against the token oracle (matcher, score, candidate set, ranking), RouterJSR311 against the regular-expression engine seen as two deterministic functions (matching services, matching routes, ranking, parameter extraction), and of the detectRoute stage both share (exact outcome, first candidate). On the common fragment the two oracles are connected by newPathExpression's contract (the compiled expression matches exactly the paths the template admits), validated by a bounded stand-in on every run.",
 COMMON_ASSUME + "A-VERB, A-JSR (bounded: 21 templates x 38 probe paths, labelled bounded).",
 ["the agreement lemma itself (same route, same parameters, same status for every table of the common fragment): it needs A-JSR for all strings, not a pool", "D9 (rankings differ: static tokens vs literal characters), documented"],
 TECH),
"C19": (True,
 "Deductive frame proofs: each function under contract on the dispatch path changes only the locations in its modifies clause — route tables, Produces/Consumes slices, configuration and other requests' objects are untouched (selectRoutes, SelectRoute of both routers, Routes copies, ExtractParameters, NewRequest/NewResponse, wrapRequestResponse, dispatch, CORS Filter/doPreflightRequest, OPTIONSFilter, computeAllowedMethods); the CORS filter value is not mutated by a request; the Accept ranking (sortedMimes) and the entity writer's choice are functions of the header, the Produces list and the registry alone — not of the trace switch or of earlier requests.",
 COMMON_ASSUME + "A-CB (callbacks change only the objects handed to them), typed heaps (no unsafe aliasing).",
 ["functions not under contract", "concurrent interleavings"],
 TECH + ", frame conditions"),
}
NA = {
}

checks=[]
info={}
for pid,(claimed,text,note,nd,tech) in sorted(P.items()):
    if not claimed: continue
    checks.append({
      "property_id": pid,
      "quick_cmd": f"./check {pid} quick",
      "thorough_cmd": f"./check {pid} thorough",
      "evidence_file": f"/verif/evidence/{pid}.json",
      "replay_cmd_template": "./check --replay {path}",
      "engine": "govc",
      "level_claimed": {"category":"proof","text":text,"design_ref":"DESIGN.md section 10 ("+pid+")"},
      "level_note": note + " Not decided by this check: " + "; ".join(nd),
      "technique": tech,
    })
    info[pid]={"not_decided":nd,"note":note}
m={
 "version":1,
 "setup_cmd":"cd /verif/engine && GOFLAGS=-mod=mod GOPROXY=off GOSUMDB=off GOTOOLCHAIN=local go build -o /verif/bin/govc .",
 "hooks":{"guard":"verif","enable":"go build -tags verif (the only hook is /repo/verif_contracts.go, a comment-only file with //go:build verif)","baseline_off_cmd":"cd /repo && go test -vet=off -count=1 ./...","source_commits":hook_commits,"add_only":True},
 "engines":[{"name":"govc","path":"/verif/engine","serves_properties":sorted(k for k,v in P.items() if v[0]),"kind_free_text":"own verification-condition generator: go/ssa (naive form) of /repo's working tree -> forward symbolic execution with contracts, loop invariants, exceptional edges -> SMT-LIB, one query per named obligation, raced on z3 4.8.12 / z3 5.1.0 / cvc5 1.0.3"}],
 "checks":checks,
 "not_applicable":[{"property_id":k,"reason":v} for k,v in sorted(NA.items())],
 "notes":"Contract-based deductive verification of the real code; contracts live in /repo/verif_contracts.go (comment-only, build tag verif), property oracles in /verif/spec, dependency models in /verif/models. See DESIGN.md.",
}
json.dump(m,open('/verif/MANIFEST.json','w'),indent=1)
json.dump(info,open('/verif/propinfo.json','w'),indent=1)
print("checks:",[c["property_id"] for c in checks],"n/a:",sorted(NA))
